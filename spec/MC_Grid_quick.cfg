CONSTANTS Starts <- MCStarts
 Steps <- MCSteps
 MaxN = 40
 SmallN <- MCSmallN
 PStarts <- MCPStarts
 PSteps <- MCPSteps
INIT Init
NEXT Next
INVARIANT ExactCount
INVARIANT OnLattice
INVARIANT AllOnce
INVARIANT Order
INVARIANT Dump
CHECK_DEADLOCK FALSE
