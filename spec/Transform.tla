------------------------------ MODULE Transform ------------------------------
(***************************************************************************)
(* Geometry transformation programs of the command line and their meaning.  *)
(*                                                                         *)
(* main() collects --geo-rotate options, then --geo-translate options, each *)
(* with a numeric sort key and an optional object tag, sorts them STABLY by *)
(* key (so among equal keys rotations come before translations, and two     *)
(* options of one kind keep their command-line order) and applies them in   *)
(* that order, each to the tagged object or to every object; --geo-scale    *)
(* options are applied afterwards in command-line order, to the tagged      *)
(* object or to everything, and multiply all lengths including the radius.  *)
(* The meaning of a program is, per object, the sequence of elementary      *)
(* maps applied to it.                                                      *)
(***************************************************************************)
EXTENDS Naturals, Sequences, FiniteSets, TLC, Json, SequencesExt

CONSTANTS Tags,        \* tags of the objects of the model (naturals > 0)
          Keys,        \* sort keys that may be used
          MaxOps,      \* number of rotate + translate options
          MaxScales

VARIABLES rot, tra, scl,   \* option lists in command-line order: [key, tag, id] (tag 0 = all)
          phase
vars == <<rot, tra, scl, phase>>

NOps == Len(rot) + Len(tra)
Init == rot = <<>> /\ tra = <<>> /\ scl = <<>> /\ phase = "build"

TagChoice == {0} \cup Tags
AddRot == /\ phase = "build" /\ NOps < MaxOps /\ tra = <<>> /\ scl = <<>>
          /\ \E k \in Keys : \E t \in TagChoice :
               rot' = Append(rot, [key |-> k, tag |-> t, id |-> NOps + 1, op |-> "R"])
          /\ UNCHANGED <<tra, scl, phase>>
AddTra == /\ phase = "build" /\ NOps < MaxOps /\ scl = <<>>
          /\ \E k \in Keys : \E t \in TagChoice :
               tra' = Append(tra, [key |-> k, tag |-> t, id |-> NOps + 1, op |-> "T"])
          /\ UNCHANGED <<rot, scl, phase>>
AddScl == /\ phase = "build" /\ Len(scl) < MaxScales
          /\ \E t \in TagChoice : scl' = Append(scl, [key |-> 0, tag |-> t, id |-> 100 + Len(scl) + 1, op |-> "S"])
          /\ UNCHANGED <<rot, tra, phase>>
Run == phase = "build" /\ phase' = "done" /\ UNCHANGED <<rot, tra, scl>>

Next == AddRot \/ AddTra \/ AddScl \/ Run
Spec == Init /\ [][Next]_vars

\* ---------------------------------------------------------------- meaning
\* stable sort by key of rotations followed by translations
Ordered == SortSeq(rot \o tra, LAMBDA a, b : a.key < b.key \/ (a.key = b.key /\ a.id < b.id /\ a.op = b.op)
                                              \/ (a.key = b.key /\ a.op = "R" /\ b.op = "T"))
Program == Ordered \o scl
AppliesTo(o, t) == o.tag = 0 \/ o.tag = t
MapsOf(t) == SelectSeq(Program, LAMBDA o : AppliesTo(o, t))

Done == phase = "done"
\* scaling is last for every object
ScaleLast == Done => \A t \in Tags : \A a, b \in 1..Len(MapsOf(t)) :
                (MapsOf(t)[a].op = "S" /\ a < b) => MapsOf(t)[b].op = "S"
\* sort-key order; among equal keys rotations first, command-line order within a kind
KeyOrder == Done => \A t \in Tags : \A a, b \in 1..Len(MapsOf(t)) :
                (a < b /\ MapsOf(t)[a].op # "S" /\ MapsOf(t)[b].op # "S") =>
                   \/ MapsOf(t)[a].key < MapsOf(t)[b].key
                   \/ (MapsOf(t)[a].key = MapsOf(t)[b].key /\
                        (MapsOf(t)[a].op = MapsOf(t)[b].op => MapsOf(t)[a].id < MapsOf(t)[b].id) /\
                        ~(MapsOf(t)[a].op = "T" /\ MapsOf(t)[b].op = "R"))
\* a tagged option touches only its object, an untagged one every object
Scope == Done => \A t \in Tags : \A k \in 1..Len(Program) :
            (\E j \in 1..Len(MapsOf(t)) : MapsOf(t)[j].id = Program[k].id) <=> AppliesTo(Program[k], t)

Dump == Done => PrintT(ToJson([rot |-> rot, tra |-> tra, scl |-> scl,
                               maps |-> [t \in Tags |-> [j \in 1..Len(MapsOf(t)) |-> MapsOf(t)[j].id]]]))
=============================================================================
