------------------------------ MODULE Topology ------------------------------
(***************************************************************************)
(* Geometry objects -> tags -> ground flags -> end matching -> pulses.      *)
(*                                                                         *)
(* One action per critical section of the implementation:                   *)
(*   AddObj / Finish  : the caller builds the list of geometry objects      *)
(*   Tags             : Geo_Container.compute_tags                          *)
(*   Connect          : Geobj.compute_connections for object i (includes    *)
(*                      Geobj.compute_ground, _add_conn, Pulse creation,    *)
(*                      Pulse_Container.add)                                *)
(* Quirks of the code are transcribed, not idealised: the first object at   *)
(* a point is the junction "hub"; sign -1 when equal end indices meet;      *)
(* grounded ends are skipped by the matching; the pulse count adjustments   *)
(* for single segment objects; END columns forced to 0 at free ends;        *)
(* forward links printed as 0.                                              *)
(*                                                                         *)
(* Points are abstract ids: 1..NFree are points off the ground plane,       *)
(* 101..100+NGnd are points on the ground plane (only when HasGround).      *)
(* Two ends are "the same point" iff they carry the same id; the harness    *)
(* concretises ids to coordinates (closer than the matching tolerance for   *)
(* equal ids, far apart otherwise).                                         *)
(***************************************************************************)
EXTENDS Naturals, Integers, Sequences, FiniteSets, TLC, Json,
        SequencesExt, FiniteSetsExt

CONSTANTS NObjMax,      \* max number of geometry objects
          MaxSeg,       \* max segments per object
          NFree,        \* number of off-ground point ids
          NGnd,         \* number of on-ground point ids
          HasGround,    \* BOOLEAN: a ground plane exists (media # None)
          MaxTag,       \* explicit tags are drawn from 1..MaxTag (0 = automatic)
          MaxCurves     \* number of curve objects (arc-like: kind "A") allowed; the rest are wires "W"

FreePts == 1..NFree
GndPts  == IF HasGround THEN (101..(100+NGnd)) ELSE {}
Pts     == FreePts \cup GndPts
IsGnd(p) == p \in GndPts

VARIABLES objs,     \* sequence of records [p1, p2, ns, tag]; sorted by tag after "Tags"
          stage,    \* "build" | "tags" | "conn" | "done" | "reject"
          i,        \* object being connected (1-based)
          endDict,  \* point -> <<end index (0/1), object>> or <<>>   (Mininec.end_dict)
          conn,     \* conn[o][e+1] = sequence of [geo, ow, idx, s]    (Connected_Geobj.list)
          sgnBy,    \* sgnBy[o][e+1] = set of <<object, sign>>         (Connected_Geobj.sgn_by_geobj)
          pulses,   \* sequence of pulse records, global numbering = position
          endSegs,  \* endSegs[o] = <<a, b>>, -1 for None              (Geobj.end_segs)
          input     \* history: the object list as given by the caller

vars == <<objs, stage, i, endDict, conn, sgnBy, pulses, endSegs, input>>

\* ---------------------------------------------------------------- building
\* canonical point labelling: new point ids are introduced in increasing
\* order (removes the symmetry of renaming points)
UsedFree(os) == {p \in FreePts : \E k \in 1..Len(os) : os[k].p1 = p \/ os[k].p2 = p}
UsedGnd(os)  == {p \in GndPts  : \E k \in 1..Len(os) : os[k].p1 = p \/ os[k].p2 = p}
NextFree(U) == IF U = FreePts THEN {} ELSE {Min(FreePts \ U)}
NextGnd(U)  == IF U = GndPts THEN {} ELSE {Min(GndPts \ U)}
Candidates(os) == UsedFree(os) \cup UsedGnd(os) \cup NextFree(UsedFree(os))
                    \cup NextGnd(UsedGnd(os))

Init ==
  /\ objs = <<>>
  /\ stage = "build"
  /\ i = 0
  /\ endDict = [p \in Pts |-> <<>>]
  /\ conn = <<>>
  /\ sgnBy = <<>>
  /\ pulses = <<>>
  /\ endSegs = <<>>
  /\ input = <<>>

\* kind "W": straight wire (both ends grounded is an error, the ends differ);
\* kind "A": arc-like curve of at least three segments: both ends may lie on the ground plane and
\*           the curve may close on itself (first end = last end, off the ground)
NCurves(os) == Cardinality({k \in 1..Len(os) : os[k].kind = "A"})
AddObj ==
  /\ stage = "build"
  /\ Len(objs) < NObjMax
  /\ \E a \in Candidates(objs) : \E kd \in {"W", "A"} :
       LET os1 == Append(objs, [p1 |-> a, p2 |-> a, ns |-> 1, tag |-> 0, kind |-> kd])
       IN \E b \in Candidates(os1) : \E ns \in 1..MaxSeg : \E tg \in 0..MaxTag :
            /\ (kd = "W" => a # b)           \* a wire of zero length is rejected earlier
            /\ (kd = "A" => ns >= 3 /\ NCurves(objs) < MaxCurves /\ (a = b => ~IsGnd(a)))
            /\ objs' = Append(objs, [p1 |-> a, p2 |-> b, ns |-> ns, tag |-> tg, kind |-> kd])
  /\ UNCHANGED <<stage, i, endDict, conn, sgnBy, pulses, endSegs, input>>

Finish ==
  /\ stage = "build"
  /\ Len(objs) >= 1
  /\ stage' = "tags"
  /\ input' = objs
  /\ UNCHANGED <<objs, i, endDict, conn, sgnBy, pulses, endSegs>>

\* ---------------------------------------------------------------- tags
MaxOf(S) == IF S = {} THEN 0 ELSE Max(S)
ExplicitTags(os) == {os[k].tag : k \in {j \in 1..Len(os) : os[j].tag # 0}}
DuplicateTag(os) == \E a, b \in 1..Len(os) : a # b /\ os[a].tag # 0 /\ os[a].tag = os[b].tag
\* automatic tags continue after the largest explicit tag, in input order
AutoTagged(os) ==
  LET base == MaxOf(ExplicitTags(os))
      nAutoBefore(k) == Cardinality({j \in 1..(k-1) : os[j].tag = 0})
  IN [k \in 1..Len(os) |->
        [os[k] EXCEPT !.tag = IF os[k].tag = 0 THEN base + nAutoBefore(k) + 1 ELSE os[k].tag]]
SortByTag(os) == SortSeq(os, LAMBDA a, b : a.tag < b.tag)

\* Wire.compute_ground: a wire with both ends on the ground plane is rejected
BothGrounded(os) == \E k \in 1..Len(os) : os[k].kind = "W" /\ IsGnd(os[k].p1) /\ IsGnd(os[k].p2)

Tags ==
  /\ stage = "tags"
  /\ IF DuplicateTag(objs) \/ BothGrounded(objs)
     THEN /\ stage' = "reject"
          /\ UNCHANGED <<objs, i, conn, sgnBy, endSegs>>
     ELSE /\ objs' = SortByTag(AutoTagged(objs))
          /\ stage' = "conn"
          /\ i' = 1
          /\ conn' = [o \in 1..Len(objs) |-> <<<<>>, <<>>>>]
          /\ sgnBy' = [o \in 1..Len(objs) |-> <<{}, {}>>]
          /\ endSegs' = [o \in 1..Len(objs) |-> <<-1, -1>>]
  /\ UNCHANGED <<endDict, pulses, input>>

\* ---------------------------------------------------------------- connect object i
Pt(o, e) == IF e = 0 THEN objs[o].p1 ELSE objs[o].p2

\* Geobj.compute_connections, loop over the two end points; st = [d, c, g]
MatchEnd(o, e, st) ==
  LET p == Pt(o, e) IN
  IF IsGnd(p) THEN st                       \* "if self.is_ground [n1]: continue"
  ELSE IF st.d[p] = <<>>
       THEN [st EXCEPT !.d[p] = <<e, o>>]   \* first end at this point
       ELSE LET n2 == st.d[p][1]            \* always the FIRST object at the point
                ot == st.d[p][2]
                s  == IF n2 = e THEN -1 ELSE 1           \* Geobj._add_conn
            IN IF \E k \in 1..Len(st.c[ot][n2+1]) : st.c[ot][n2+1][k].geo = o
               THEN [st EXCEPT !.bad = TRUE]   \* Connected_Geobj.add: "assert geobj not in self.geo" -- a curve
                                               \* closing on a point where an EARLIER object ends (named deviation:
                                               \* the code stops with an AssertionError, see known findings)
               ELSE [st EXCEPT
                 !.c[ot][n2+1] = Append(@, [geo |-> o,  ow |-> o, idx |-> e, s |-> s]),
                 !.g[ot][n2+1] = @ \cup {<<o, s>>},
                 !.c[o][e+1]   = Append(@, [geo |-> ot, ow |-> o, idx |-> e, s |-> 1]),
                 !.g[o][e+1]   = @ \cup {<<o, s>>} ]

SgnOf(g, o) == (CHOOSE pr \in g : pr[1] = o)[2]

\* I1 / I2 of the BASIC code (Geobj.idx) for object o, end e under state st
Idx(o, e, st) ==
  IF IsGnd(Pt(o, e)) THEN -o
  ELSE IF st.c[o][e+1] = <<>> THEN 0
       ELSE st.c[o][e+1][1].geo * SgnOf(st.g[o][e+1], o)

Abs(x) == IF x < 0 THEN -x ELSE x
Sign(x) == IF x < 0 THEN -1 ELSE IF x > 0 THEN 1 ELSE 0

\* pulse record:
\*   kind  "J1" junction at end 1, "G1" ground pulse at end 1, "I" interior,
\*         "G2" ground pulse at end 2, "J2" junction at end 2
\*   owner object (index in tag order) the pulse is listed / numbered with
\*   sa,sb <<object, segment number>> of the two segments (negative / positive half)
\*   gnd   -1 none, 0: first half is the image, 1: second half is the image
\*   sgn   direction signs of the two halves (Pulse.dir_sgn)
\*   z0,z1 END1 / END2 column forced to 0 (free end of the wire next to it)
PulsesOf(o, st, base) ==
  LET ns  == objs[o].ns
      i1  == Idx(o, 0, st)
      i2  == Idx(o, 1, st)
      j1 == IF i1 # 0 /\ Abs(i1) # o
            THEN << [kind |-> "J1", owner |-> o,
                     sa |-> <<Abs(i1), IF i1 < 0 THEN 1 ELSE objs[Abs(i1)].ns>>,
                     sb |-> <<o, 1>>, gnd |-> -1, sgn |-> <<Sign(i1), 1>>,
                     z0 |-> FALSE, z1 |-> (ns = 1 /\ i2 = 0)] >>
            ELSE IF IsGnd(Pt(o, 0))
            THEN << [kind |-> "G1", owner |-> o, sa |-> <<o, 1>>, sb |-> <<o, 1>>,
                     gnd |-> 0, sgn |-> <<1, 1>>, z0 |-> FALSE, z1 |-> FALSE] >>
            ELSE << >>
      mid == [k \in 1..(ns-1) |->
                [kind |-> "I", owner |-> o, sa |-> <<o, k>>, sb |-> <<o, k+1>>,
                 gnd |-> -1, sgn |-> <<1, 1>>,
                 z0 |-> (k = 1 /\ i1 = 0), z1 |-> (k = ns - 1 /\ i2 = 0)]]
      j2 == IF IsGnd(Pt(o, 1))
            THEN << [kind |-> "G2", owner |-> o, sa |-> <<o, ns>>, sb |-> <<o, ns>>,
                     gnd |-> 1, sgn |-> <<1, 1>>, z0 |-> FALSE, z1 |-> FALSE] >>
            ELSE IF i2 # 0
            THEN << [kind |-> "J2", owner |-> o, sa |-> <<o, ns>>,
                     sb |-> <<Abs(i2), IF i2 < 0 THEN objs[Abs(i2)].ns ELSE 1>>,
                     gnd |-> -1, sgn |-> <<1, Sign(i2)>>,
                     z0 |-> (ns = 1 /\ i1 = 0), z1 |-> FALSE] >>
            ELSE << >>
  IN j1 \o mid \o j2

Connect ==
  /\ stage = "conn"
  /\ i <= Len(objs)
  /\ LET st0 == [d |-> endDict, c |-> conn, g |-> sgnBy, bad |-> FALSE]
         st1 == MatchEnd(i, 0, st0)
         st2 == IF st1.bad THEN st1 ELSE MatchEnd(i, 1, st1)
         ns  == objs[i].ns
         i1  == Idx(i, 0, st2)
         i2  == Idx(i, 1, st2)
         base == Len(pulses)
         \* "If structure is connected to itself, deduct one from pulse count"
         selfloop == st2.c[i][1] # <<>> /\ st2.c[i][1][1].geo = i
         npulse == ns - (IF i1 = 0 THEN 1 ELSE 0) - (IF i2 = 0 THEN 1 ELSE 0)
                      - (IF selfloop THEN 1 ELSE 0)
         es0 == IF ns = 1 /\ i1 = 0 THEN -1 ELSE base
         es1 == IF ns = 1 /\ i2 = 0 THEN -1 ELSE base + npulse
     IN IF st2.bad
        THEN /\ stage' = "assert" /\ UNCHANGED <<endDict, conn, sgnBy, pulses, endSegs, i>>
        ELSE /\ endDict' = st2.d
             /\ conn' = st2.c
             /\ sgnBy' = st2.g
             /\ pulses' = pulses \o PulsesOf(i, st2, base)
             /\ endSegs' = [endSegs EXCEPT ![i] = <<es0, es1>>]
             /\ i' = i + 1
             /\ stage' = IF i = Len(objs) THEN "done" ELSE "conn"
  /\ UNCHANGED <<objs, input>>

Next == AddObj \/ Finish \/ Tags \/ Connect
Spec == Init /\ [][Next]_vars

\* ================================================================ derived operators
Done == stage = "done"
NO == Len(objs)
NP == Len(pulses)
Ends == (1..NO) \X {0, 1}
EndsAt(p) == {oe \in Ends : Pt(oe[1], oe[2]) = p}
Sum(S, f(_)) == FoldSet(LAMBDA x, acc : acc + f(x), 0, S)

\* pulses listed with object o, in listing order (Geobj.pulses), as global 0-based numbers
ObjPulses(o) == SelectSeq([k \in 1..NP |-> k - 1], LAMBDA q : pulses[q+1].owner = o)
ObjByTag(t) == CHOOSE o \in 1..NO : objs[o].tag = t

\* ---------------------------------------------------------------- C12
CountFormula ==
  Done => NP = Sum(1..NO, LAMBDA o : objs[o].ns - 1)
             + Cardinality({oe \in Ends : IsGnd(Pt(oe[1], oe[2]))})
             + Sum({p \in FreePts : EndsAt(p) # {}}, LAMBDA p : Cardinality(EndsAt(p)) - 1)

\* numbering without gaps in object order: the owners are non-decreasing
ObjectOrder == Done => \A a, b \in 1..NP : a < b => pulses[a].owner <= pulses[b].owner

\* the two segments a pulse is reported with share a joint:
\*   interior: consecutive segments of one object;
\*   ground  : a single end segment and its image;
\*   junction: end segments of two objects whose ends are at the same point,
\*             and the direction sign says whether the other object is reversed
SegEndPoint(os, far) ==  \* point id at the near/far side of an END segment <<o,k>>
  IF os[2] = 1 /\ ~far THEN Pt(os[1], 0)
  ELSE IF os[2] = objs[os[1]].ns /\ far THEN Pt(os[1], 1) ELSE 0
SegJoint ==
  Done => \A q \in 1..NP :
    LET pu == pulses[q] IN
    CASE pu.kind = "I"  -> pu.sa[1] = pu.sb[1] /\ pu.sb[2] = pu.sa[2] + 1
      [] pu.kind = "G1" -> pu.sa = pu.sb /\ pu.sa[2] = 1 /\ IsGnd(Pt(pu.owner, 0))
      [] pu.kind = "G2" -> pu.sa = pu.sb /\ pu.sa[2] = objs[pu.owner].ns /\ IsGnd(Pt(pu.owner, 1))
      [] pu.kind = "J1" -> \* other object's end (end 2 if same direction, end 1 if reversed) = own end 1
            /\ pu.sb = <<pu.owner, 1>>
            /\ Pt(pu.owner, 0) = (IF pu.sgn[1] > 0 THEN Pt(pu.sa[1], 1) ELSE Pt(pu.sa[1], 0))
            /\ pu.sa[2] = (IF pu.sgn[1] > 0 THEN objs[pu.sa[1]].ns ELSE 1)
      [] pu.kind = "J2" ->
            /\ pu.sa = <<pu.owner, objs[pu.owner].ns>>
            /\ Pt(pu.owner, 1) = (IF pu.sgn[2] > 0 THEN Pt(pu.sb[1], 0) ELSE Pt(pu.sb[1], 1))
            /\ pu.sb[2] = (IF pu.sgn[2] > 0 THEN 1 ELSE objs[pu.sb[1]].ns)

\* two wire ends are joined exactly when they are at the same (non-ground) point:
\* every end at a free point with >= 2 ends is linked (hub <-> each later end)
Linked(o, e) == conn[o][e+1] # <<>>
JoinedIffSamePoint ==
  Done => \A oe \in Ends :
     LET p == Pt(oe[1], oe[2]) IN
       Linked(oe[1], oe[2]) <=> (~IsGnd(p) /\ Cardinality(EndsAt(p)) >= 2)

\* every junction contributes exactly (k-1) junction pulses, each pairing the
\* hub (first object at the point) with one later end
JunctionPulses(p) == {q \in 1..NP : pulses[q].kind \in {"J1", "J2"} /\
                        Pt(pulses[q].owner, IF pulses[q].kind = "J1" THEN 0 ELSE 1) = p}
JunctionCount ==
  Done => \A p \in FreePts : EndsAt(p) # {} =>
            Cardinality(JunctionPulses(p)) = Cardinality(EndsAt(p)) - 1

\* ---------------------------------------------------------------- C17
\* a junction pulse belongs to the later-tagged of the two objects it joins
OwnerIsLaterTag ==
  Done => \A q \in 1..NP :
     LET pu == pulses[q] IN
       /\ pu.owner \in {pu.sa[1], pu.sb[1]}
       /\ objs[pu.owner].tag >= objs[pu.sa[1]].tag
       /\ objs[pu.owner].tag >= objs[pu.sb[1]].tag
\* objects are ordered by tag and tags are unique and positive
TagOrder == Done => \A a, b \in 1..NO : a < b => (0 < objs[a].tag /\ objs[a].tag < objs[b].tag)
\* explicit tags are kept, automatic ones follow the largest explicit tag in input order
TagAssignment ==
  Done => /\ ExplicitTags(input) \subseteq {objs[o].tag : o \in 1..NO}
          /\ \A a, b \in 1..Len(input) : (a < b /\ input[a].tag = 0 /\ input[b].tag = 0) =>
               \E oa, ob \in 1..NO : /\ oa < ob
                                     /\ objs[oa].tag > MaxOf(ExplicitTags(input))
                                     /\ [objs[oa] EXCEPT !.tag = 0] = input[a]
                                     /\ [objs[ob] EXCEPT !.tag = 0] = input[b]
\* both addressing forms name the same pulses: (k, tag) <-> absolute number is a bijection
AddrAbs(k, t) == ObjPulses(ObjByTag(t))[k]           \* k is 1-based, result 0-based global number
AddrFormsAgree ==
  Done => /\ \A q \in 0..(NP-1) : \E o \in 1..NO : \E k \in 1..Len(ObjPulses(o)) :
                AddrAbs(k, objs[o].tag) = q
          /\ \A o1, o2 \in 1..NO : \A k1 \in 1..Len(ObjPulses(o1)) : \A k2 \in 1..Len(ObjPulses(o2)) :
                (AddrAbs(k1, objs[o1].tag) = AddrAbs(k2, objs[o2].tag)) => (o1 = o2 /\ k1 = k2)
\* "all" attaches each pulse exactly once
AllOnce == Done => Sum(1..NO, LAMBDA o : Len(ObjPulses(o))) = NP

\* ---------------------------------------------------------------- report (C09, C12, C19)
\* END1 / END2 columns of the ANTENNA GEOMETRY table (Pulse.c_per)
GeomRow(q) ==
  LET pu == pulses[q]
      e1 == IF pu.z0 THEN 0
            ELSE IF pu.gnd = 0 THEN 0 - objs[pu.sa[1]].tag
            ELSE pu.sgn[1] * objs[pu.sa[1]].tag
      e2 == IF pu.z1 THEN 0
            ELSE IF pu.gnd = 1 THEN 0 - objs[pu.sb[1]].tag
            ELSE pu.sgn[2] * objs[pu.sb[1]].tag
  IN <<e1, e2>>
\* END CONNECTION column of the WIRE block (Geobj.ltag / rtag): forward links print 0
WireConn(o, e) ==
  IF IsGnd(Pt(o, e)) THEN 0 - objs[o].tag
  ELSE IF conn[o][e+1] = <<>> THEN 0
  ELSE IF o < conn[o][e+1][1].geo THEN 0
  ELSE objs[conn[o][e+1][1].geo].tag * SgnOf(sgnBy[o][e+1], o)

\* current data block: line printed for end e of object o
\*   "G"  grounded end: no line (the ground pulse is a numbered row)
\*   "E"  unconnected end: zero current
\*   "J"  junction: linear combination of pulse currents, coefficient per pulse
EntryPulse(en) == endSegs[en.ow][en.idx + 1]
LineKind(o, e) == IF IsGnd(Pt(o, e)) THEN "G" ELSE IF conn[o][e+1] = <<>> THEN "E" ELSE "J"
\* the design: the junction-end current is the sum over all wires linked at that end
JCoef(o, e, q) ==
  LET L == conn[o][e+1] IN
  Sum(1..Len(L), LAMBDA k : IF EntryPulse(L[k]) = q THEN L[k].s ELSE 0)
\* numbered rows of object o: the pulses whose two halves are on o itself
NumberedRows(o) == SelectSeq(ObjPulses(o), LAMBDA q : pulses[q+1].sa[1] = pulses[q+1].sb[1])

\* C09: KCL over the coefficient vectors.  Current INTO the junction through
\* (o, e): end 0 -> minus the along-wire current, end 1 -> plus.
Into(o, e, q) == IF e = 0 THEN 0 - JCoef(o, e, q) ELSE JCoef(o, e, q)
KCL ==
  Done => \A p \in FreePts : Cardinality(EndsAt(p)) >= 2 =>
     \A q \in 0..(NP-1) : Sum(EndsAt(p), LAMBDA oe : Into(oe[1], oe[2], q)) = 0
FreeEndZero ==
  Done => \A oe \in Ends :
     (~IsGnd(Pt(oe[1], oe[2])) /\ Cardinality(EndsAt(Pt(oe[1], oe[2]))) = 1)
        => LineKind(oe[1], oe[2]) = "E"
\* each junction-end current is the total of the pulse currents through that wire end:
\* pulse q passes through end (o,e) iff it is a junction pulse at that point one of
\* whose halves is the end segment of o at e; sign +1 if that half runs along o
Through(o, e, q) ==
  LET pu == pulses[q+1]
      endseg == <<o, IF e = 0 THEN 1 ELSE objs[o].ns>>
      atp == pu.kind \in {"J1", "J2"} /\
             Pt(pu.owner, IF pu.kind = "J1" THEN 0 ELSE 1) = Pt(o, e)
  IN IF ~atp THEN 0
     ELSE IF pu.kind = "J1" /\ pu.sb = endseg /\ pu.owner = o /\ e = 0 THEN 1
     ELSE IF pu.kind = "J2" /\ pu.sa = endseg /\ pu.owner = o /\ e = 1 THEN 1
     ELSE IF pu.kind = "J1" /\ pu.sa = endseg /\ pu.sa[1] = o
               /\ e = (IF pu.sgn[1] > 0 THEN 1 ELSE 0) THEN pu.sgn[1]
     ELSE IF pu.kind = "J2" /\ pu.sb = endseg /\ pu.sb[1] = o       \* (also the closing pulse of a self-closed curve)
               /\ e = (IF pu.sgn[2] > 0 THEN 0 ELSE 1) THEN pu.sgn[2]
     ELSE 0
JunctionEndIsSum ==
  Done => \A oe \in Ends : LineKind(oe[1], oe[2]) = "J" =>
     \A q \in 0..(NP-1) : JCoef(oe[1], oe[2], q) = Through(oe[1], oe[2], q)

\* ---------------------------------------------------------------- the exact-kernel rule (flag I6 of MININEC)
\* Geobj.is_connected: the other object is recorded at one of my ends, or we have a recorded neighbour in common.
\* (At a point where several objects end, every later object records only the FIRST object of that point, and that
\* first object records all of them.)  The matrix fill uses the exact kernel between two pulses iff their OWNER
\* objects are connected in this sense (Pulse_Container.matrix_geo_unconnected).
ConnSet(o) == {conn[o][1][k].geo : k \in 1..Len(conn[o][1])} \cup {conn[o][2][k].geo : k \in 1..Len(conn[o][2])}
Connected(a, b) == a = b \/ b \in ConnSet(a) \/ a \in ConnSet(b) \/ ConnSet(a) \cap ConnSet(b) # {}
ExactKernel(p, q) == Connected(pulses[p].owner, pulses[q].owner)
\* what the geometry says: two objects are joined when they share a point off the ground plane
Touch(a, b) == \E e1, e2 \in {0, 1} : Pt(a, e1) = Pt(b, e2) /\ ~IsGnd(Pt(a, e1))
JoinedOrCommon(a, b) == a = b \/ Touch(a, b) \/ \E c \in 1..NO : Touch(a, c) /\ Touch(c, b)
\* DESIGN statement that does NOT hold (recorded finding of C06): with four objects, a one-segment piece between a
\* point where three objects meet and the rest of its wire leaves that rest "unconnected" to the second object of
\* the point although both touch the piece.  TLC must keep producing the counterexample.
ExactKernelFollowsGeometry ==
  Done => \A a, b \in 1..NO : Connected(a, b) <=> JoinedOrCommon(a, b)
\* the sound half: the rule never claims a connection the geometry does not have
ConnectedOnlyIfJoined ==
  Done => \A a, b \in 1..NO : Connected(a, b) => JoinedOrCommon(a, b)

\* ---------------------------------------------------------------- dump for replay
Lines == [o \in 1..NO |-> [e \in 1..2 |->
            [kind |-> LineKind(o, e-1),
             coef |-> IF LineKind(o, e-1) = "J" THEN [q \in 1..NP |-> JCoef(o, e-1, q-1)] ELSE <<>>]]]
DumpRec ==
  [input |-> input, objs |-> objs, pulses |-> pulses, endSegs |-> endSegs,
   geom |-> [q \in 1..NP |-> GeomRow(q)],
   wconn |-> [o \in 1..NO |-> <<WireConn(o, 0), WireConn(o, 1)>>],
   lines |-> Lines,
   rows |-> [o \in 1..NO |-> NumberedRows(o)],
   exact |-> [p \in 1..NP |-> [q \in 1..NP |-> ExactKernel(p, q)]],
   opulses |-> [o \in 1..NO |-> ObjPulses(o)]]
Dump == Done => PrintT(ToJson(DumpRec))
RejectDump == (stage \in {"reject", "assert"}) =>
                 PrintT(ToJson([input |-> input, reject |-> TRUE, assertion |-> (stage = "assert")]))
=============================================================================
