CONSTANTS NObjMax = 5
 MaxSeg = 3
 NFree = 5
 NGnd = 3
 HasGround = TRUE
 MaxTag = 4
 MaxCurves = 0
INIT Init
NEXT Next
















INVARIANT WeightsAgree
INVARIANT GroundWeight
INVARIANT OneRealHalf
INVARIANT FreeSpaceUnit
INVARIANT CircuitDump
CHECK_DEADLOCK FALSE
