---------------------------- MODULE TraceCmdline ----------------------------
(***************************************************************************)
(* Validates the Stage events recorded from real runs of main() (hooks      *)
(* guarded by PYMININEC_VERIF) against the pipeline of Cmdline.tla: stages  *)
(* are entered in the order StageNames, none is skipped, the four stages of *)
(* a frequency step repeat; a run that ends with a diagnostic or a usage    *)
(* error has printed nothing (it stopped before the loop or in the first    *)
(* step before its field / print stages: DiagStopsEarly on real             *)
(* executions: nothing of the report precedes a diagnostic), a run that     *)
(* ends with a report ends in step_print.  Many traces are batched in one   *)
(* TLC run (tid selects the trace, l the position; registers per trace:     *)
(* longest matched prefix and a property code).                             *)
(***************************************************************************)
EXTENDS Naturals, Sequences, TLC, Json, IOUtils, TLCExt, MC_Cmdline_table

Traces == JsonDeserialize(IOEnv.TRACE_FILE)     \* [st |-> <<stage names>>, end |-> outcome kind]
NT == Len(Traces)
ASSUME \A t \in 1..NT : TLCSet(t, 0) /\ TLCSet(NT + t, 0)

NStages == Len(StageNames)
Idx(name) == CHOOSE k \in 1..NStages : StageNames[k] = name
LoopFirst == Idx("step_setf")
LoopLast == Idx("step_print")

VARIABLES tid, l, stage, printed     \* printed: a frequency step has reached its print stage
vars == <<tid, l, stage, printed>>
Tr == Traces[tid].st

TInit == tid \in 1..NT /\ l = 1 /\ stage = 0 /\ printed = FALSE
Enter(k) == \/ k = stage + 1 /\ k <= LoopLast                 \* the next stage of the pipeline
            \/ stage = LoopLast /\ k = LoopFirst               \* the next frequency step
TNext == /\ l <= Len(Tr)
         /\ \E k \in 1..NStages : StageNames[k] = Tr[l] /\ Enter(k) /\ stage' = k
                                   /\ printed' = (printed \/ k = LoopLast)
         /\ l' = l + 1 /\ tid' = tid
TSpec == TInit /\ [][TNext]_vars

\* property codes, evaluated when the whole trace has been consumed
AtEnd == l = Len(Tr) + 1
\* (since fix ca5550e the report is printed after the loop: a diagnostic may come from setting the frequency or solving in
\*  ANY step, the stages "fields" and "print" of a step only prepare text)
Code == IF AtEnd /\ Traces[tid].end \in {"diag", "usage", "diag-malformed"} /\ stage > LoopFirst + 1 THEN 1
        ELSE IF AtEnd /\ Traces[tid].end = "report" /\ stage # LoopLast THEN 2
        ELSE 0
Track == /\ TLCSet(tid, IF TLCGet(tid) < l THEN l ELSE TLCGet(tid))
         /\ (Code # 0 /\ TLCGet(NT + tid) = 0) => TLCSet(NT + tid, Code)
Constr == Track
Post == \A t \in 1..NT : PrintT(<<"TV", t, TLCGet(t), Len(Traces[t].st) + 1, TLCGet(NT + t)>>)
=============================================================================
