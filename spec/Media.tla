-------------------------------- MODULE Media --------------------------------
(***************************************************************************)
(* The chain of ground media used by the real-ground far field.             *)
(*                                                                         *)
(* Medium i has constants c[i] (an abstract id standing for permittivity,   *)
(* conductivity and height) and reaches from the previous interface to its  *)
(* interface coordinate u[i] (the last medium is unbounded).  A ray that is *)
(* reflected at distance d (x coordinate for a linear, radius for a         *)
(* circular boundary) sees the first medium whose interface is not          *)
(* exceeded.  The matrix fill never looks at the media: currents do not     *)
(* depend on them.                                                          *)
(* Checked here: the lookup is unchanged by splitting a medium into two     *)
(* adjacent pieces with identical constants and by appending a further      *)
(* medium beyond the largest reflection distance.                           *)
(***************************************************************************)
EXTENDS Naturals, Sequences, FiniteSets, TLC, Json

CONSTANTS Consts,      \* abstract constant ids
          Coords,      \* candidate interface coordinates (naturals, increasing use enforced)
          Dists,       \* reflection distances to test
          MaxMedia

Inf == 1000000          \* "1e6" of the program: the last medium is unbounded

VARIABLES chain,   \* sequence of [c, u]; u of the last medium = Inf
          phase, variant, kind
vars == <<chain, phase, variant, kind>>

Lookup(ch, d) == LET S == {i \in 1..Len(ch) : d <= ch[i].u} IN
                 IF S = {} THEN 1 ELSE CHOOSE i \in S : \A j \in S : i <= j    \* (beyond everything: index 0 of the program)
ConstAt(ch, d) == ch[Lookup(ch, d)].c

Init == chain = <<>> /\ phase = "build" /\ variant = <<>> /\ kind = "none"

AddMedium ==
  /\ phase = "build" /\ Len(chain) < MaxMedia
  /\ \E c \in Consts : \E u \in Coords :
       /\ (chain # <<>> => u > chain[Len(chain)].u)
       /\ chain' = Append(chain, [c |-> c, u |-> u])
  /\ UNCHANGED <<phase, variant, kind>>
Close ==       \* the last medium is unbounded
  /\ phase = "build" /\ chain # <<>>
  /\ chain' = [chain EXCEPT ![Len(chain)].u = Inf]
  /\ phase' = "closed" /\ UNCHANGED <<variant, kind>>
Split ==       \* medium k becomes two adjacent pieces with identical constants
  /\ phase = "closed"
  /\ \E k \in 1..Len(chain) : \E u \in Coords :
       /\ (k > 1 => u > chain[k-1].u) /\ u < chain[k].u
       /\ variant' = SubSeq(chain, 1, k-1) \o <<[c |-> chain[k].c, u |-> u], chain[k]>> \o SubSeq(chain, k+1, Len(chain))
  /\ kind' = "split" /\ phase' = "done" /\ UNCHANGED chain
Extend ==      \* a further medium beyond every reflection distance
  /\ phase = "closed"
  /\ \E c \in Consts : \E u \in Coords :
       /\ \A d \in Dists : d <= u
       /\ (Len(chain) > 1 => u > chain[Len(chain)-1].u)
       /\ variant' = SubSeq(chain, 1, Len(chain)-1) \o <<[c |-> chain[Len(chain)].c, u |-> u], [c |-> c, u |-> Inf]>>
  /\ kind' = "extend" /\ phase' = "done" /\ UNCHANGED chain

Next == AddMedium \/ Close \/ Split \/ Extend
Spec == Init /\ [][Next]_vars

SameLookup == phase = "done" => \A d \in Dists : ConstAt(chain, d) = ConstAt(variant, d)
Monotone == phase \in {"closed", "done"} => \A i \in 1..(Len(chain)-1) : chain[i].u < chain[i+1].u
Dump == phase = "done" => PrintT(ToJson([chain |-> chain, variant |-> variant, kind |-> kind]))
=============================================================================
