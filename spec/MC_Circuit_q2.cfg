CONSTANTS NObjMax = 2
 MaxSeg = 3
 NFree = 3
 NGnd = 2
 HasGround = TRUE
 MaxTag = 3
 MaxCurves = 0
INIT Init
NEXT Next
















INVARIANT WeightsAgree
INVARIANT GroundWeight
INVARIANT OneRealHalf
INVARIANT FreeSpaceUnit
INVARIANT CircuitDump
CHECK_DEADLOCK FALSE
