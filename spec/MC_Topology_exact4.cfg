CONSTANTS NObjMax = 4
 MaxSeg = 1
 NFree = 5
 NGnd = 0
 HasGround = FALSE
 MaxTag = 0
 MaxCurves = 0
INIT Init
NEXT Next
INVARIANT ConnectedOnlyIfJoined
INVARIANT ExactKernelFollowsGeometry
CHECK_DEADLOCK FALSE
