CONSTANTS MaxObj = 3
 MaxTag = 3
 MaxSrc = 2
 MaxLoad = 3
 MaxAttach = 3
 WriteUnitVoltage = TRUE
 WriteEveryTaggedDistributed = TRUE
 LoadsInKindOrder = TRUE
INIT Init
NEXT Next
INVARIANT Dump
CHECK_DEADLOCK FALSE
