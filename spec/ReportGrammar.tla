---------------------------- MODULE ReportGrammar ----------------------------
(***************************************************************************)
(* Structure of the MININEC-style report as a function of the abstract      *)
(* model: Expected(M) is the sequence of block / row tokens a complete      *)
(* report must consist of.                                                 *)
(*                                                                         *)
(*   geometry part   per object a block with one row per pulse listed with  *)
(*                   it (or the "no pulse" marker row)                      *)
(*   listings        one line per source; one line per loaded pulse,        *)
(*                   S-parameter loads followed by degree+1 coefficient     *)
(*                   lines                                                  *)
(*   per frequency step: one source block per source; per object a current  *)
(*                   block: optional J/E line for end 1, the numbered rows  *)
(*                   of the pulses lying entirely on the object, optional   *)
(*                   J/E line for end 2 (grounded ends have no line);       *)
(*                   far-field tables with N_theta*N_phi rows; one E and    *)
(*                   one H block per near-field point                       *)
(* The harness tokenises real reports; TLC compares them with Expected(M)   *)
(* for many reports in one run (tid selects the report) and records the     *)
(* first differing position.                                                *)
(***************************************************************************)
EXTENDS Naturals, Sequences, TLC, Json, IOUtils, TLCExt, SequencesExt

Cases == JsonDeserialize(IOEnv.TRACE_FILE)      \* seq of [m: model, toks: seq of strings]
NT == Len(Cases)
ASSUME \A t \in 1..NT : TLCSet(t, 0)

Rep(tok, n) == [i \in 1..n |-> tok]
Flat(ss) == FoldLeft(LAMBDA acc, s : acc \o s, <<>>, ss)

\* geometry part and listings (frequency independent)
GeoBlock(o) == <<"GBLOCK">> \o (IF o.npulses = 0 THEN <<"GEMPTY">> ELSE Rep("GROW", o.npulses))
LoadLines(ld) == IF ld.kind = "Z" THEN Rep("LOADZ", ld.n)
                 ELSE Flat([i \in 1..ld.n |-> <<"LOADS">> \o Rep("COEF", ld.deg + 1)])
Independent(m) ==
  Rep("WIRE", Len(m.objs)) \o Flat([i \in 1..Len(m.objs) |-> GeoBlock(m.objs[i])])
    \o Rep("SRC", m.nsrc) \o Flat([i \in 1..Len(m.loads) |-> LoadLines(m.loads[i])])

\* one frequency step
EndLine(k) == IF k = "G" THEN <<>> ELSE <<k>>
CurBlock(o) == <<"CBLOCK">> \o EndLine(o.l1) \o Rep("CROW", o.rows) \o EndLine(o.l2)
Fields(m) ==
  (IF m.ffdb >= 0 THEN <<"FFHDR", "PATDB">> \o Rep("DBROW", m.ffdb) ELSE <<>>)
    \o (IF m.ffabs >= 0 THEN <<"FFHDR", "PATABS">> \o Rep("ABSROW", m.ffabs) ELSE <<>>)
    \o (IF m.near >= 0 THEN <<"NFHDR">> \o Rep("NFE", m.near) \o <<"NFHDR">> \o Rep("NFH", m.near) ELSE <<>>)
StepToks(m) == <<"STEP">> \o Rep("SDBLOCK", m.nsrc) \o Flat([i \in 1..Len(m.objs) |-> CurBlock(m.objs[i])])
                 \o Fields(m)

Expected(m) == Independent(m) \o Flat([k \in 1..m.steps |-> StepToks(m)])

\* ---------------------------------------------------------------- batched comparison
VARIABLES tid, done
vars == <<tid, done>>
Init == tid \in 1..NT /\ done = FALSE

FirstDiff(a, b) ==
  IF a = b THEN 0
  ELSE LET n == IF Len(a) < Len(b) THEN Len(a) ELSE Len(b)
           S == {i \in 1..n : a[i] # b[i]}
       IN IF S = {} THEN n + 1 ELSE CHOOSE i \in S : \A j \in S : i <= j

Check ==
  /\ ~done /\ done' = TRUE /\ tid' = tid
  /\ TLCSet(tid, 1 + FirstDiff(Expected(Cases[tid].m), Cases[tid].toks))
Next == Check
Post == \A t \in 1..NT : PrintT(<<"RG", t, TLCGet(t), Len(Expected(Cases[t].m)), Len(Cases[t].toks)>>)

\* design properties of the grammar (evaluated for every model that is checked)
RowPerPulse == \A t \in 1..NT :
   LET m == Cases[t].m
       cnt(tok) == Len(SelectSeq(Expected(m), LAMBDA x : x = tok))
       sum(f(_)) == FoldLeft(LAMBDA acc, o : acc + f(o), 0, m.objs)
   IN /\ cnt("GROW") = sum(LAMBDA o : o.npulses)
      /\ cnt("SDBLOCK") = m.nsrc * m.steps
      /\ cnt("CROW") = m.steps * sum(LAMBDA o : o.rows)
ASSUME RowPerPulse
=============================================================================
