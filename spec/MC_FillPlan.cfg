CONSTANTS MaxSeg = 5
 MaxClass = 3
 EqualAcrossPulses = TRUE
 FromFile = FALSE
 MaxSeg2 = 3
INIT Init
NEXT Next
INVARIANT ShortcutOnlyIfUniform
INVARIANT OriginIsComputed
INVARIANT OriginIsCongruent
INVARIANT CopiedSourceNotGrounded
INVARIANT JunctionsInFull
CHECK_DEADLOCK FALSE
