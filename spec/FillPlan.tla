------------------------------ MODULE FillPlan ------------------------------
(***************************************************************************)
(* The plan of the impedance-matrix fill (Mininec.compute_impedance_matrix) *)
(* for the pulses of ONE straight object: which entries are computed in     *)
(* full, which with the same-wire shortcut, which are copied from another   *)
(* entry of their diagonal, and which lower-triangle entries are mirrored   *)
(* from the upper triangle.  (Pulses of different objects, and junction     *)
(* pulses, are always computed in full; the image pass is always computed   *)
(* in full.)                                                                *)
(*                                                                         *)
(* An object has ns segments with LENGTH CLASSES lc[1..ns] (equal class =   *)
(* equal length: 1,1,1,1 uniform; 1,2,3,3,3 a taper with a maximum).  lc    *)
(* are the classes of EXACT floating-point equality, which is what the      *)
(* program compares; pc are the classes of physical equality (lengths that  *)
(* differ by rounding only are one class) used for the validity of the      *)
(* plan.  When TLC enumerates objects itself the two coincide.              *)
(* optionally a grounded first / last end, and is vertical or not.          *)
(* Pulses: ground pulse at end 1 (halves: image of segment 1, segment 1),   *)
(* interior pulses k (segments k, k+1), ground pulse at end 2.              *)
(*                                                                         *)
(* Every shortcut is valid only between two pulses that lie on a uniformly  *)
(* segmented straight stretch (all four half segments of one length) and,   *)
(* if one of them is a ground pulse, on a vertical object.  The constant    *)
(* EqualAcrossPulses selects the code after (TRUE) / before (FALSE) the     *)
(* repair that added the comparison of the segment lengths of the two       *)
(* pulses.                                                                  *)
(***************************************************************************)
EXTENDS Naturals, Sequences, FiniteSets, TLC, Json, IOUtils, TLCExt

CONSTANTS MaxSeg, MaxClass, EqualAcrossPulses, FromFile

Given == IF FromFile THEN JsonDeserialize(IOEnv.TRACE_FILE) ELSE <<>>

VARIABLES obj, tid        \* obj = [ns, lc, g1, g2, vertical]
vars == <<obj, tid>>

\* the segmentations the program can produce for a straight wire (equal, tapered from one or both
\* ends, optionally with a maximum) have at most ONE length that occurs on neighbouring segments
OneRun(p, n) == \A a, b \in 1..(n-1) : (p[a] = p[a+1] /\ p[b] = p[b+1]) => p[a] = p[b]
Patterns(n) == {p \in [1..n -> 1..MaxClass] : OneRun(p, n)}
Init ==
  IF FromFile
  THEN /\ tid \in 1..Len(Given)
       /\ obj = [ns |-> Given[tid].ns, lc |-> Given[tid].lc, pc |-> Given[tid].pc, dc |-> Given[tid].dc,
                 g1 |-> Given[tid].g1, g2 |-> Given[tid].g2, vertical |-> Given[tid].vertical]
  ELSE /\ tid = 0
       /\ \E n \in 1..MaxSeg : \E p \in Patterns(n) : \E a, b, v \in BOOLEAN :
            /\ ~(a /\ b)                               \* a wire with both ends grounded is rejected
            /\ obj = [ns |-> n, lc |-> p, pc |-> p, dc |-> [k \in 1..n |-> 1], g1 |-> a, g2 |-> b, vertical |-> v]
Next == UNCHANGED vars
Spec == Init /\ [][Next]_vars

\* ---------------------------------------------------------------- pulses of the object
NP == obj.ns - 1 + (IF obj.g1 THEN 1 ELSE 0) + (IF obj.g2 THEN 1 ELSE 0)
Off == IF obj.g1 THEN 1 ELSE 0
\* pulse q (1-based): <<segment of first half, segment of second half, grounded>>
Pulse(q) == IF obj.g1 /\ q = 1 THEN <<1, 1, TRUE>>
            ELSE IF obj.g2 /\ q = NP THEN <<obj.ns, obj.ns, TRUE>>
            ELSE <<q - Off, q - Off + 1, FALSE>>
Grounded(q) == Pulse(q)[3]
SameLen(q) == obj.lc[Pulse(q)[1]] = obj.lc[Pulse(q)[2]]
\* direction vectors are compared exactly as well (dc = classes of exactly equal direction vectors:
\* one class for an equally segmented wire, rounding-dependent for a tapered one)
SameDir(q) == obj.dc[Pulse(q)[1]] = obj.dc[Pulse(q)[2]]
NVG(q) == Grounded(q) /\ ~obj.vertical                   \* Pulse.is_non_vertical_grounded

\* ---------------------------------------------------------------- the plan, as the code builds it
Opt(m, n) ==
  IF SameLen(m) /\ SameLen(n) /\ SameDir(m) /\ SameDir(n) /\ ~NVG(m) /\ ~NVG(n)
     /\ (EqualAcrossPulses => obj.lc[Pulse(m)[1]] = obj.lc[Pulse(n)[1]])
  THEN (IF m = n THEN 2 ELSE 1) ELSE 0
NGnd(n) == ~Grounded(n)
\* candidates on the diagonal with offset d (m, m+d), in index order
Diag(d) == {m \in 1..(NP - d) : Opt(m, m + d) > 0 /\ NGnd(m + d)}
Src(d) == CHOOSE m \in Diag(d) : \A x \in Diag(d) : m <= x
IsCopyDst(m, n) == n >= m /\ Cardinality(Diag(n - m)) >= 2 /\ m \in Diag(n - m) /\ m # Src(n - m)
CopySrcOf(m, n) == <<Src(n - m), Src(n - m) + (n - m)>>
Mirror(m, n) == m < n /\ Opt(m, n) > 0               \* "copy": the lower entry (n,m) takes the upper (m,n)
Computed(m, n) == ~Mirror(n, m) /\ ~IsCopyDst(m, n)  \* compu of the k = 1 pass
\* where the value of entry (m,n) of the k = 1 pass finally comes from
Origin(m, n) ==
  IF Mirror(n, m) THEN (IF IsCopyDst(n, m) THEN CopySrcOf(n, m) ELSE <<n, m>>)
  ELSE IF IsCopyDst(m, n) THEN CopySrcOf(m, n)
  ELSE <<m, n>>

\* ---------------------------------------------------------------- validity of the plan
Uniform(m, n) ==
  /\ obj.pc[Pulse(m)[1]] = obj.pc[Pulse(m)[2]]
  /\ obj.pc[Pulse(n)[1]] = obj.pc[Pulse(n)[2]]
  /\ obj.pc[Pulse(m)[1]] = obj.pc[Pulse(n)[1]]
  /\ ((Grounded(m) \/ Grounded(n)) => obj.vertical)
Pairs == (1..NP) \X (1..NP)
\* a shortcut is only planned between pulses of one uniform stretch
ShortcutOnlyIfUniform == \A pr \in Pairs : Opt(pr[1], pr[2]) > 0 => Uniform(pr[1], pr[2])
\* every entry takes its value from an entry that is really computed, and that entry is congruent to it
OriginIsComputed == \A pr \in Pairs : LET o == Origin(pr[1], pr[2]) IN Computed(o[1], o[2])
OriginIsCongruent ==
  \A pr \in Pairs : LET o == Origin(pr[1], pr[2]) IN
     o # <<pr[1], pr[2]>> =>
        /\ Uniform(pr[1], pr[2]) /\ Uniform(o[1], o[2])
        /\ obj.pc[Pulse(o[1])[1]] = obj.pc[Pulse(pr[1])[1]]
        /\ (o[2] - o[1] = pr[2] - pr[1] \/ o[2] - o[1] = pr[1] - pr[2])      \* same index distance
\* (the code is more conservative for diagonal copies: a ground pulse is never the SOURCE pulse of a
\*  copied entry -- "Grounded pulses *must* be computed"; stated separately)
CopiedSourceNotGrounded ==
  \A pr \in Pairs : IsCopyDst(pr[1], pr[2]) => ~Grounded(pr[2])

Plan == [opt |-> [m \in 1..NP |-> [n \in 1..NP |-> Opt(m, n)]],
         computed |-> [m \in 1..NP |-> [n \in 1..NP |-> Computed(m, n)]],
         origin |-> [m \in 1..NP |-> [n \in 1..NP |-> Origin(m, n)]]]
Dump == PrintT(ToJson([tid |-> tid, obj |-> obj, np |-> NP, plan |-> Plan]))
=============================================================================
