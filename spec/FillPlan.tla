------------------------------ MODULE FillPlan ------------------------------
(***************************************************************************)
(* The plan of the impedance-matrix fill (Mininec.compute_impedance_matrix) *)
(* which entries are computed in full, which with the same-wire shortcut,   *)
(* which are copied from another entry of their diagonal, and which         *)
(* lower-triangle entries are mirrored from the upper triangle.  (The image *)
(* pass is always computed in full.)                                        *)
(*                                                                         *)
(* A model is a sequence of straight objects and a sequence of pulses.  An  *)
(* object has ns segments with LENGTH CLASSES lc[1..ns] (equal class =      *)
(* equal length: 1,1,1,1 uniform; 1,2,3,3,3 a taper with a maximum).  lc    *)
(* are the classes of EXACT floating-point equality, which is what the      *)
(* program compares; pc are the classes of physical equality (lengths that  *)
(* differ by rounding only are one class) used for the validity of the      *)
(* plan; dc the classes of exactly equal direction vectors.  Classes are    *)
(* global (the same number on two objects = the same length).  When TLC     *)
(* enumerates models itself lc and pc coincide.                             *)
(* A pulse <<o1, s1, o2, s2, gnd>> has its first half on segment s1 of      *)
(* object o1 and its second half on segment s2 of object o2; an interior    *)
(* pulse has o1 = o2 and s2 = s1 + 1, a junction pulse o1 # o2, a ground    *)
(* pulse (gnd) o1 = o2, s1 = s2 (halves: image of the segment, segment).    *)
(*                                                                         *)
(* Every shortcut is valid only between two pulses that lie on ONE object   *)
(* on a uniformly segmented straight stretch (all four half segments of one *)
(* length) and, if one of them is a ground pulse, on a vertical object.     *)
(* Junction pulses and pulses of different objects are computed in full.    *)
(* The constant EqualAcrossPulses selects the code after (TRUE) / before    *)
(* (FALSE) the repair that added the comparison of the segment lengths of   *)
(* the two pulses.                                                          *)
(***************************************************************************)
EXTENDS Naturals, Sequences, FiniteSets, TLC, Json, IOUtils, TLCExt

CONSTANTS MaxSeg, MaxClass, EqualAcrossPulses, FromFile,
          MaxSeg2          \* chains of two objects with up to MaxSeg2 segments each (0: single objects only)

Given == IF FromFile THEN JsonDeserialize(IOEnv.TRACE_FILE) ELSE <<>>

VARIABLES mdl, tid        \* mdl = [objs, pulses]
vars == <<mdl, tid>>

\* the segmentations the program can produce for a straight wire (equal, tapered from one or both
\* ends, optionally with a maximum) have at most ONE length that occurs on neighbouring segments
OneRun(p, n) == \A a, b \in 1..(n-1) : (p[a] = p[a+1] /\ p[b] = p[b+1]) => p[a] = p[b]
Patterns(n) == {p \in [1..n -> 1..MaxClass] : OneRun(p, n)}

Obj(n, p, vert) == [ns |-> n, lc |-> p, pc |-> p, dc |-> [k \in 1..n |-> 1], vertical |-> vert]
\* pulses of object o (ns segments) in the order of the program: ground pulse of end 1, interior, ground pulse of end 2
OwnPulses(o, n, a, b) ==
  (IF a THEN << <<o, 1, o, 1, TRUE>> >> ELSE <<>>)
  \o [k \in 1..(n-1) |-> <<o, k, o, k + 1, FALSE>>]
  \o (IF b THEN << <<o, n, o, n, TRUE>> >> ELSE <<>>)

Single ==
  \E n \in 1..MaxSeg : \E p \in Patterns(n) : \E a, b, vert \in BOOLEAN :
     /\ ~(a /\ b)                               \* a wire with both ends grounded is rejected
     /\ mdl = [objs |-> << Obj(n, p, vert) >>, pulses |-> OwnPulses(1, n, a, b)]
\* object 1 (first end possibly grounded) continued at its second end by object 2 (second end possibly
\* grounded): the junction pulse belongs to the later object and heads its block
Chain ==
  /\ MaxSeg2 > 0
  /\ \E n1, n2 \in 1..MaxSeg2 : \E p1 \in Patterns(n1), p2 \in Patterns(n2) : \E a, b, v1, v2 \in BOOLEAN :
       /\ mdl = [objs |-> << Obj(n1, p1, v1), Obj(n2, p2, v2) >>,
                 pulses |-> OwnPulses(1, n1, a, FALSE) \o << <<1, n1, 2, 1, FALSE>> >> \o OwnPulses(2, n2, FALSE, b)]
Init ==
  IF FromFile
  THEN /\ tid \in 1..Len(Given)
       /\ mdl = [objs |-> Given[tid].objs, pulses |-> Given[tid].pulses]
  ELSE /\ tid = 0
       /\ (Single \/ Chain)
Next == UNCHANGED vars
Spec == Init /\ [][Next]_vars

\* ---------------------------------------------------------------- pulses
NP == Len(mdl.pulses)
Pulse(q) == mdl.pulses[q]
O1(q) == Pulse(q)[1]
S1(q) == Pulse(q)[2]
O2(q) == Pulse(q)[3]
S2(q) == Pulse(q)[4]
Grounded(q) == Pulse(q)[5]
OneObject(q) == O1(q) = O2(q)                              \* not a junction pulse
SameLen(q) == mdl.objs[O1(q)].lc[S1(q)] = mdl.objs[O2(q)].lc[S2(q)]
\* direction vectors are compared exactly as well (dc = classes of exactly equal direction vectors:
\* one class for an equally segmented wire, rounding-dependent for a tapered one)
SameDir(q) == mdl.objs[O1(q)].dc[S1(q)] = mdl.objs[O2(q)].dc[S2(q)]
NVG(q) == Grounded(q) /\ ~mdl.objs[O1(q)].vertical         \* Pulse.is_non_vertical_grounded

\* ---------------------------------------------------------------- the plan, as the code builds it
Opt(m, n) ==
  IF OneObject(m) /\ OneObject(n) /\ O1(m) = O1(n)
     /\ SameLen(m) /\ SameLen(n) /\ SameDir(m) /\ SameDir(n) /\ ~NVG(m) /\ ~NVG(n)
     /\ (EqualAcrossPulses => mdl.objs[O1(m)].lc[S1(m)] = mdl.objs[O1(n)].lc[S1(n)])
  THEN (IF m = n THEN 2 ELSE 1) ELSE 0
NGnd(n) == ~Grounded(n)
\* candidates on the diagonal with offset d (m, m+d) on object g, in index order
Diag(d, g) == {m \in 1..(NP - d) : Opt(m, m + d) > 0 /\ NGnd(m + d) /\ O1(m) = g}
Src(d, g) == CHOOSE m \in Diag(d, g) : \A x \in Diag(d, g) : m <= x
IsCopyDst(m, n) == /\ n >= m
                   /\ Cardinality(Diag(n - m, O1(m))) >= 2
                   /\ m \in Diag(n - m, O1(m)) /\ m # Src(n - m, O1(m))
CopySrcOf(m, n) == <<Src(n - m, O1(m)), Src(n - m, O1(m)) + (n - m)>>
Mirror(m, n) == m < n /\ Opt(m, n) > 0               \* "copy": the lower entry (n,m) takes the upper (m,n)
Computed(m, n) == ~Mirror(n, m) /\ ~IsCopyDst(m, n)  \* compu of the k = 1 pass
\* where the value of entry (m,n) of the k = 1 pass finally comes from
Origin(m, n) ==
  IF Mirror(n, m) THEN (IF IsCopyDst(n, m) THEN CopySrcOf(n, m) ELSE <<n, m>>)
  ELSE IF IsCopyDst(m, n) THEN CopySrcOf(m, n)
  ELSE <<m, n>>

\* ---------------------------------------------------------------- validity of the plan
PC(q, h) == IF h = 1 THEN mdl.objs[O1(q)].pc[S1(q)] ELSE mdl.objs[O2(q)].pc[S2(q)]
Uniform(m, n) ==
  /\ OneObject(m) /\ OneObject(n) /\ O1(m) = O1(n)
  /\ PC(m, 1) = PC(m, 2)
  /\ PC(n, 1) = PC(n, 2)
  /\ PC(m, 1) = PC(n, 1)
  /\ ((Grounded(m) \/ Grounded(n)) => mdl.objs[O1(m)].vertical)
Pairs == (1..NP) \X (1..NP)
\* a shortcut is only planned between pulses of one uniform stretch of one object
ShortcutOnlyIfUniform == \A pr \in Pairs : Opt(pr[1], pr[2]) > 0 => Uniform(pr[1], pr[2])
\* every entry takes its value from an entry that is really computed, and that entry is congruent to it
OriginIsComputed == \A pr \in Pairs : LET o == Origin(pr[1], pr[2]) IN Computed(o[1], o[2])
OriginIsCongruent ==
  \A pr \in Pairs : LET o == Origin(pr[1], pr[2]) IN
     o # <<pr[1], pr[2]>> =>
        /\ Uniform(pr[1], pr[2]) /\ Uniform(o[1], o[2])
        /\ O1(o[1]) = O1(pr[1])
        /\ PC(o[1], 1) = PC(pr[1], 1)
        /\ (o[2] - o[1] = pr[2] - pr[1] \/ o[2] - o[1] = pr[1] - pr[2])      \* same index distance
\* (the code is more conservative for diagonal copies: a ground pulse is never the SOURCE pulse of a
\*  copied entry -- "Grounded pulses *must* be computed"; stated separately)
CopiedSourceNotGrounded ==
  \A pr \in Pairs : IsCopyDst(pr[1], pr[2]) => ~Grounded(pr[2])
\* entries that involve a junction pulse or two different objects are computed in full
JunctionsInFull ==
  \A pr \in Pairs : (~OneObject(pr[1]) \/ ~OneObject(pr[2]) \/ O1(pr[1]) # O1(pr[2])) =>
       /\ Opt(pr[1], pr[2]) = 0 /\ Origin(pr[1], pr[2]) = <<pr[1], pr[2]>>

Plan == [opt |-> [m \in 1..NP |-> [n \in 1..NP |-> Opt(m, n)]],
         computed |-> [m \in 1..NP |-> [n \in 1..NP |-> Computed(m, n)]],
         origin |-> [m \in 1..NP |-> [n \in 1..NP |-> Origin(m, n)]]]
Dump == PrintT(ToJson([tid |-> tid, np |-> NP, plan |-> Plan]))
=============================================================================
