------------------------------- MODULE Circuit -------------------------------
(***************************************************************************)
(* The linear system on top of the pulse table of Topology:                 *)
(*   rhs[q]  = RhsWeight(q) * (-j/m) * V      for a source of voltage V on q *)
(*   Z[q][q] += LoadWeight(q) * (-j/m) * Z_L  for every load attached to q   *)
(* A pulse on a grounded wire end has its second half in the image; the      *)
(* excitation and every load on it count twice (factor 2), which is what    *)
(* makes a load Z_L on the feed pulse raise the feed impedance by exactly   *)
(* Z_L also there, and a source on a grounded end see half the impedance    *)
(* of the corresponding source in the middle of wire plus image.            *)
(* Sources assign (a later source on the same pulse replaces the earlier),  *)
(* loads add.  Distributed loads weigh each conductor half of the pulse     *)
(* with the constants of the wire that half belongs to.                     *)
(***************************************************************************)
EXTENDS Topology

HasImageHalf(q) == pulses[q].gnd # -1
RhsWeight(q)  == IF HasGround /\ HasImageHalf(q) THEN 2 ELSE 1
LoadWeight(q) == IF HasGround /\ HasImageHalf(q) THEN 2 ELSE 1

\* right-hand side for a sequence of sources [q (1-based pulse), v (voltage id)]:
\* result maps pulse -> <<weight, voltage id>> or <<0, 0>>
RhsOf(srcs) ==
  [q \in 1..NP |->
     LET S == {n \in 1..Len(srcs) : srcs[n].q = q} IN
     IF S = {} THEN <<0, 0>> ELSE <<RhsWeight(q), srcs[Max(S)].v>>]
\* diagonal increments for a sequence of loads [id, qs (sequence of pulses, with repetition)]:
\* per pulse the sequence of <<weight, load id>> terms that are added
DiagOf(lds) ==
  [q \in 1..NP |->
     FoldLeft(LAMBDA acc, n : acc \o [k \in 1..Len(SelectSeq(lds[n].qs, LAMBDA x : x = q)) |->
                                         <<LoadWeight(q), lds[n].id>>],
              <<>>, [n \in 1..Len(lds) |-> n])]

\* conductor halves of pulse q for distributed loads: <<object, segment, is the real conductor>>
\* (the image half of a grounded pulse is not conductor)
Halves(q) == << [obj |-> pulses[q].sa[1], seg |-> pulses[q].sa[2], real |-> pulses[q].gnd # 0],
                [obj |-> pulses[q].sb[1], seg |-> pulses[q].sb[2], real |-> pulses[q].gnd # 1] >>

\* ---------------------------------------------------------------- invariants
WeightsAgree == Done => \A q \in 1..NP : LoadWeight(q) = RhsWeight(q)
\* exactly the pulses created for grounded ends carry the factor 2
GroundWeight ==
  Done => \A q \in 1..NP : (RhsWeight(q) = 2) <=> (HasGround /\ pulses[q].kind \in {"G1", "G2"})
\* a grounded pulse has exactly one real conductor half
OneRealHalf ==
  Done => \A q \in 1..NP : HasImageHalf(q) =>
     (Halves(q)[1].real # Halves(q)[2].real /\ Halves(q)[1].obj = Halves(q)[2].obj)
\* without ground nothing is doubled
FreeSpaceUnit == (Done /\ ~HasGround) => \A q \in 1..NP : RhsWeight(q) = 1

CircuitDump == Done => PrintT(ToJson(
   [input |-> input, objs |-> objs, pulses |-> pulses, opulses |-> [o \in 1..NO |-> ObjPulses(o)],
    weight |-> [q \in 1..NP |-> RhsWeight(q)],
    halves |-> [q \in 1..NP |-> Halves(q)]]))
=============================================================================
