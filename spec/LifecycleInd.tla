---------------------------- MODULE LifecycleInd ----------------------------
(***************************************************************************)
(* Typed restatement of the compute-style part of Lifecycle.tla (SetF,      *)
(* SetV, AddLoad, Compute, FarField, NearField; no history variable, no     *)
(* raw sub-steps) for Apalache: records have one shape ("ok" flag instead   *)
(* of the None sentinels), frequencies, voltage settings and load counts    *)
(* are integers.  IndInv is an INDUCTIVE invariant: Apalache checks         *)
(*     Init => IndInv            (length 0)                                 *)
(*     IndInv /\ Next => IndInv' (length 1, IndInit as initial predicate)   *)
(* which proves the safety part of C14 for histories of ANY length (TLC     *)
(* explores Lifecycle.tla only up to MaxLen).  The link to Lifecycle.tla is *)
(* checked by TLC: LifecycleInd refines Lifecycle under the mapping Ref     *)
(* (MC_LifecycleInd_refine.cfg: PROPERTY RefSpec).                          *)
(***************************************************************************)
EXTENDS Integers, FiniteSets

CONSTANTS
  \* @type: Set(Int);
  Freqs,
  \* @type: Set(Int);
  Wires,
  \* @type: Set(Int);
  Volts,
  \* @type: Int;
  MaxLoads,
  \* @type: Set(Int);
  FFReqs,
  \* @type: Set(Int);
  NFReqs,
  \* @type: Bool;
  ZintSurvives     \* TRUE: SetF leaves the skin-effect cache alone (the code before fix e3d5934)

VARIABLES
  \* @type: Int;
  f,
  \* @type: { ok: Bool, at: Int, nload: Int, zi: Int -> Int, loads: Int };
  Z,
  \* @type: Int;
  rhs,        \* 0 = none
  \* @type: Int;
  v,
  \* @type: Int;
  rv,         \* 0 = none
  \* @type: Int;
  ld,
  \* @type: { ok: Bool, z: { ok: Bool, at: Int, nload: Int, zi: Int -> Int, loads: Int }, r: Int, v: Int };
  cur,
  \* @type: Int -> Int;
  zint,       \* 0 = empty
  \* @type: { ok: Bool, c: { ok: Bool, z: { ok: Bool, at: Int, nload: Int, zi: Int -> Int, loads: Int }, r: Int, v: Int }, at: Int, req: Int };
  ff,
  \* @type: { ok: Bool, c: { ok: Bool, z: { ok: Bool, at: Int, nload: Int, zi: Int -> Int, loads: Int }, r: Int, v: Int }, at: Int, req: Int };
  nf,
  \* @type: Str;
  last        \* name of the last action

vars == <<f, Z, rhs, v, rv, ld, cur, zint, ff, nf, last>>

NoZ == [ok |-> FALSE, at |-> 0, nload |-> 0, zi |-> [w \in Wires |-> 0], loads |-> 0]
NoCur == [ok |-> FALSE, z |-> NoZ, r |-> 0, v |-> 0]
NoField == [ok |-> FALSE, c |-> NoCur, at |-> 0, req |-> 0]

Init ==
  /\ f \in Freqs
  /\ Z = NoZ /\ rhs = 0 /\ cur = NoCur
  /\ v = 1 /\ rv = 0 /\ ld = 0
  /\ zint = [w \in Wires |-> 0]
  /\ ff = NoField /\ nf = NoField
  /\ last = "New"

SetF(x) ==
  /\ f' = x /\ Z' = NoZ /\ rhs' = 0
  /\ zint' = IF ZintSurvives THEN zint ELSE [w \in Wires |-> 0]
  /\ UNCHANGED <<v, rv, ld, cur, ff, nf>>
  /\ last' = "SetF"
SetV(x) ==
  /\ x /= v /\ v' = x
  /\ UNCHANGED <<f, Z, rhs, rv, ld, cur, zint, ff, nf>>
  /\ last' = "SetV"
AddLoad ==
  /\ ld < MaxLoads /\ ld' = ld + 1
  /\ UNCHANGED <<f, Z, rhs, v, rv, cur, zint, ff, nf>>
  /\ last' = "AddLoad"
\* compute = fill Z ; add the loads (filling / reading the skin-effect cache) ; fill rhs ; solve
Compute ==
  LET zi2 == [w \in Wires |-> IF zint[w] = 0 THEN f ELSE zint[w]]
      Z2 == [ok |-> TRUE, at |-> f, nload |-> 1, zi |-> zi2, loads |-> ld]
  IN /\ Z' = Z2 /\ zint' = zi2 /\ rhs' = f /\ rv' = v
     /\ cur' = [ok |-> TRUE, z |-> Z2, r |-> f, v |-> v]
     /\ UNCHANGED <<f, v, ld, ff, nf>>
     /\ last' = "Compute"
CurrentIsCurrent == /\ cur.ok /\ cur.r = f /\ cur.z.ok /\ cur.z.at = f
                    /\ cur.v = v /\ cur.z.loads = ld
FarField(r) ==
  /\ CurrentIsCurrent
  /\ ff' = [ok |-> TRUE, c |-> cur, at |-> f, req |-> r]
  /\ UNCHANGED <<f, Z, rhs, v, rv, ld, cur, zint, nf>>
  /\ last' = "FarField"
NearField(r) ==
  /\ CurrentIsCurrent
  /\ nf' = [ok |-> TRUE, c |-> cur, at |-> f, req |-> r]
  /\ UNCHANGED <<f, Z, rhs, v, rv, ld, cur, zint, ff>>
  /\ last' = "NearField"

Next ==
  \/ \E x \in Freqs : SetF(x)
  \/ \E x \in Volts : SetV(x)
  \/ AddLoad
  \/ Compute
  \/ \E r \in FFReqs : FarField(r)
  \/ \E r \in NFReqs : NearField(r)

Spec == Init /\ [][Next]_vars

\* ---------------------------------------------------------------- properties
FreshZ(x, n) == [ok |-> TRUE, at |-> x, nload |-> 1, zi |-> [w \in Wires |-> x], loads |-> n]
FreshCur(x, vv, n) == [ok |-> TRUE, z |-> FreshZ(x, n), r |-> x, v |-> vv]
NoStaleUse == last = "Compute" => cur = FreshCur(f, v, ld)
FieldsFresh == /\ (ff.ok => ff.c = FreshCur(ff.at, ff.c.v, ff.c.z.loads))
               /\ (nf.ok => nf.c = FreshCur(nf.at, nf.c.v, nf.c.z.loads))

\* ---------------------------------------------------------------- the inductive invariant
WellFormedCur(c) == c.ok => c = FreshCur(c.r, c.v, c.z.loads)
TypeOK ==
  /\ f \in Freqs /\ v \in Volts /\ ld \in 0..MaxLoads
  /\ rhs \in Freqs \cup {0} /\ rv \in Volts \cup {0}
  /\ zint \in [Wires -> Freqs \cup {0}]
  /\ last \in {"New", "SetF", "SetV", "AddLoad", "Compute", "FarField", "NearField"}
IndInv ==
  /\ TypeOK
  /\ \A w \in Wires : zint[w] \in {0, f}              \* the cache never holds another frequency
  /\ WellFormedCur(cur) /\ (cur.ok => cur.r \in Freqs /\ cur.v \in Volts /\ cur.z.loads \in 0..MaxLoads)
  /\ (ff.ok => (WellFormedCur(ff.c) /\ ff.c.ok /\ ff.at = ff.c.r))
  /\ (nf.ok => (WellFormedCur(nf.c) /\ nf.c.ok /\ nf.at = nf.c.r))
  /\ (last = "Compute" => cur = FreshCur(f, v, ld))
  /\ (~cur.ok => cur = NoCur) /\ (~ff.ok => ff = NoField) /\ (~nf.ok => nf = NoField)
  /\ (Z.ok => Z = FreshZ(f, Z.loads) /\ Z.loads \in 0..MaxLoads) /\ (~Z.ok => Z = NoZ)

\* initial predicate for the inductive step: any state satisfying IndInv (Apalache needs the variables
\* bound by membership before the invariant constrains them)
IndInit ==
  /\ f \in Freqs /\ v \in Volts /\ ld \in 0..MaxLoads
  /\ rhs \in Freqs \cup {0} /\ rv \in Volts \cup {0}
  /\ zint \in [Wires -> Freqs \cup {0}]
  /\ last \in {"New", "SetF", "SetV", "AddLoad", "Compute", "FarField", "NearField"}
  /\ \E zok \in BOOLEAN, zl \in 0..MaxLoads : Z = IF zok THEN FreshZ(f, zl) ELSE NoZ
  /\ \E cok \in BOOLEAN, cf \in Freqs, cv \in Volts, cl \in 0..MaxLoads :
        cur = IF cok THEN FreshCur(cf, cv, cl) ELSE NoCur
  /\ \E fok \in BOOLEAN, cf \in Freqs, cv \in Volts, cl \in 0..MaxLoads, r \in FFReqs :
        ff = IF fok THEN [ok |-> TRUE, c |-> FreshCur(cf, cv, cl), at |-> cf, req |-> r] ELSE NoField
  /\ \E nok \in BOOLEAN, cf \in Freqs, cv \in Volts, cl \in 0..MaxLoads, r \in NFReqs :
        nf = IF nok THEN [ok |-> TRUE, c |-> FreshCur(cf, cv, cl), at |-> cf, req |-> r] ELSE NoField
  /\ IndInv

\* the properties follow from the inductive invariant
Safety == NoStaleUse /\ FieldsFresh

\* constants for Apalache (--cinit=ConstInit); TLC takes them from the cfg
ConstInit == /\ Freqs = {7, 14, 21} /\ Wires = {1, 2} /\ Volts = {1, 2} /\ MaxLoads = 2
             /\ FFReqs = {1, 2} /\ NFReqs = {1} /\ ZintSurvives = FALSE
ConstInitBad == /\ Freqs = {7, 14, 21} /\ Wires = {1, 2} /\ Volts = {1, 2} /\ MaxLoads = 2
                /\ FFReqs = {1, 2} /\ NFReqs = {1} /\ ZintSurvives = TRUE
=============================================================================
