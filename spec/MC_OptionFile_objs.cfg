CONSTANTS MaxObj = 2
 MaxTag = 2
 MaxSrc = 2
 MaxLoad = 0
 MaxAttach = 0
 WriteUnitVoltage = TRUE
 WriteEveryTaggedDistributed = TRUE
 LoadsInKindOrder = TRUE
INIT Init
NEXT Next
INVARIANT Dump
CHECK_DEADLOCK FALSE
