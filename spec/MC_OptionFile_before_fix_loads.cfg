CONSTANTS MaxObj = 1
 MaxTag = 1
 MaxSrc = 1
 MaxLoad = 2
 MaxAttach = 2
 WriteUnitVoltage = TRUE
 WriteEveryTaggedDistributed = TRUE
 LoadsInKindOrder = FALSE
INIT Init
NEXT Next
INVARIANT Accepted
INVARIANT RoundTrip
INVARIANT FixPoint
CHECK_DEADLOCK FALSE
