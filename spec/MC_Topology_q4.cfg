CONSTANTS NObjMax = 4
 MaxSeg = 2
 NFree = 4
 NGnd = 2
 HasGround = TRUE
 MaxTag = 0
 MaxCurves = 0
INIT Init
NEXT Next
INVARIANT CountFormula
INVARIANT ObjectOrder
INVARIANT SegJoint
INVARIANT JoinedIffSamePoint
INVARIANT JunctionCount
INVARIANT OwnerIsLaterTag
INVARIANT TagOrder
INVARIANT TagAssignment
INVARIANT AddrFormsAgree
INVARIANT AllOnce
INVARIANT KCL
INVARIANT FreeEndZero
INVARIANT JunctionEndIsSum
INVARIANT ConnectedOnlyIfJoined
INVARIANT Dump
INVARIANT RejectDump
CHECK_DEADLOCK FALSE
