----------------------- MODULE MC_LifecycleInd_refine -----------------------
(***************************************************************************)
(* TLC: every behaviour of LifecycleInd (the typed restatement whose        *)
(* invariant Apalache proves inductive) is a behaviour of Lifecycle under   *)
(* the mapping below (None sentinels for the ok flags, a history variable   *)
(* recording the calls).  PROPERTY RefSpec, bounded by MaxLen calls.        *)
(***************************************************************************)
EXTENDS LifecycleInd, Sequences, TLC

CONSTANT MaxLen
VARIABLE h
NoneR == [none |-> TRUE]
MapZ(z) == IF z.ok THEN [at |-> z.at, nload |-> z.nload, zi |-> z.zi, loads |-> z.loads] ELSE NoneR
MapCur(c) == IF c.ok THEN [z |-> MapZ(c.z), r |-> c.r, v |-> c.v] ELSE NoneR
MapField(x) == IF x.ok THEN [c |-> MapCur(x.c), at |-> x.at, req |-> x.req] ELSE NoneR

L == INSTANCE Lifecycle WITH Z <- MapZ(Z), cur <- MapCur(cur), ff <- MapField(ff), nf <- MapField(nf),
                             zins <- [w \in Wires |-> cur.ok], hist <- h,
                             AllowRaw <- FALSE, ZKept <- FALSE

Rec == IF last' = "SetV" THEN [op |-> "SetV", f |-> f', v |-> v']
       ELSE IF last' = "AddLoad" THEN [op |-> "AddLoad", f |-> f', n |-> ld']
       ELSE IF last' = "FarField" THEN [op |-> "FarField", f |-> f', req |-> ff'.req]
       ELSE IF last' = "NearField" THEN [op |-> "NearField", f |-> f', req |-> nf'.req]
       ELSE [op |-> last', f |-> f']
RInit == Init /\ h = << [op |-> "New", f |-> f] >>
RNext == Len(h) < MaxLen /\ Next /\ h' = Append(h, Rec)
RefSpec == L!Spec
=============================================================================
