CONSTANTS MaxSeg = 5
 MaxClass = 3
 EqualAcrossPulses = FALSE
 FromFile = FALSE
INIT Init
NEXT Next
INVARIANT ShortcutOnlyIfUniform
INVARIANT OriginIsComputed
INVARIANT OriginIsCongruent
INVARIANT CopiedSourceNotGrounded
CHECK_DEADLOCK FALSE
