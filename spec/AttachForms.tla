---------------------------- MODULE AttachForms ----------------------------
(***************************************************************************)
(* The compaction rule of the option writer for load attachments           *)
(* (_Load.as_cmdline_load_attach): one load, attached by a sequence of     *)
(* --attach-load options (a single pulse of an object, all pulses of an    *)
(* object, all pulses of the antenna), is a BAG of pulses -- a pulse may   *)
(* be attached several times ("loads in series").  The writer emits        *)
(* "all" when every object is compact, "all of object o" for every compact *)
(* object otherwise, and one option per attachment for the pulses of the   *)
(* other objects.  WHEN an object is compact is the constant Rule:         *)
(*   "once"  every pulse of the object is attached exactly once (the code  *)
(*           since fix eb437c2),                                           *)
(*   "count" the number of attachments on the object equals its number of  *)
(*           pulses (the code before: F45) -- TLC must keep refuting it.   *)
(* Reading the written options back must give the same bag (RoundTrip),    *)
(* and writing that again the same options (FixPoint).                      *)
(***************************************************************************)
EXTENDS Naturals, Sequences, FiniteSets, TLC, Json

CONSTANTS NObj,      \* objects 1..NObj
          NP,        \* pulses per object, a function 1..NObj -> Nat \ {0}
          MaxAtt,    \* attachments given by the user
          Rule       \* "once" | "count"

VARIABLES att,       \* the user's attachment options, in order
          phase, bag, toks, bag2

vars == <<att, phase, bag, toks, bag2>>
NP23 == <<2, 3>>      \* (configuration files cannot write tuples: NP <- NP23)
NP12 == <<1, 2>>

Obj == 1..NObj
Pulses == {<<o, k>> : o \in Obj, k \in 1..3} \cap {<<o, k>> \in (Obj \X (1..3)) : k <= NP[o]}
Opt == [form : {"p"}, o : Obj, k : 1..3] \cup [form : {"obj"}, o : Obj, k : {0}] \cup [form : {"all"}, o : {0}, k : {0}]
ValidOpt(a) == IF a.form = "p" THEN a.k <= NP[a.o] ELSE TRUE

\* the pulses one option attaches, in order
PulsesOf(a) == IF a.form = "p" THEN << <<a.o, a.k>> >>
               ELSE IF a.form = "obj" THEN [k \in 1..NP[a.o] |-> <<a.o, k>>]
               ELSE LET RECURSIVE All(_)
                        All(o) == IF o > NObj THEN <<>> ELSE [k \in 1..NP[o] |-> <<o, k>>] \o All(o + 1)
                    IN All(1)
RECURSIVE Flatten(_)
Flatten(s) == IF s = <<>> THEN <<>> ELSE PulsesOf(Head(s)) \o Flatten(Tail(s))

\* the model: the load's pulse list (what main() builds), as list and as bag
ListOf(s) == Flatten(s)
Count(l, p) == Cardinality({i \in 1..Len(l) : l[i] = p})
BagOf(l) == [p \in Pulses |-> Count(l, p)]
OnObj(l, o) == SelectSeq(l, LAMBDA p : p[1] = o)

Compact(l, o) ==
  IF Rule = "once" THEN \A k \in 1..NP[o] : Count(l, <<o, k>>) = 1
  ELSE Len(OnObj(l, o)) = NP[o]
Touched(l) == {o \in Obj : OnObj(l, o) # <<>>}

\* the writer
Write(l) ==
  LET comp == {o \in Touched(l) : Compact(l, o)}
      RECURSIVE ObjOpts(_)
      ObjOpts(o) == IF o > NObj THEN <<>>
                    ELSE (IF o \in comp THEN << [form |-> "obj", o |-> o, k |-> 0] >> ELSE <<>>) \o ObjOpts(o + 1)
      rest == SelectSeq(l, LAMBDA p : p[1] \notin comp)
      single == [i \in 1..Len(rest) |-> [form |-> "p", o |-> rest[i][1], k |-> rest[i][2]]]
  IN IF comp = Obj THEN << [form |-> "all", o |-> 0, k |-> 0] >> ELSE ObjOpts(1) \o single

Init == att = <<>> /\ phase = "build" /\ bag = <<>> /\ toks = <<>> /\ bag2 = <<>>
Attach == /\ phase = "build" /\ Len(att) < MaxAtt
          /\ \E a \in Opt : ValidOpt(a) /\ att' = Append(att, a)
          /\ UNCHANGED <<phase, bag, toks, bag2>>
WriteIt == /\ phase = "build" /\ att # <<>>
           /\ bag' = BagOf(ListOf(att)) /\ toks' = Write(ListOf(att))
           /\ phase' = "written" /\ UNCHANGED <<att, bag2>>
ReadIt == /\ phase = "written"
          /\ bag2' = BagOf(ListOf(toks))
          /\ phase' = "read" /\ UNCHANGED <<att, bag, toks>>
Next == Attach \/ WriteIt \/ ReadIt
Spec == Init /\ [][Next]_vars

RoundTrip == phase = "read" => bag2 = bag
FixPoint == phase = "read" => Write(ListOf(toks)) = toks
\* the written options are never longer than one option per attachment
NotLonger == phase \in {"written", "read"} => Len(toks) <= Len(ListOf(att))

Dump == (phase = "read") => PrintT(ToJson([att |-> att, toks |-> toks]))
=============================================================================
