CONSTANTS Consts = {1, 2, 3}
 Coords = {2, 5, 9, 14, 40}
 Dists = {0, 1, 2, 3, 5, 6, 9, 10, 14, 15, 30}
 MaxMedia = 3
INIT Init
NEXT Next
INVARIANT SameLookup
INVARIANT Monotone
INVARIANT Dump
CHECK_DEADLOCK FALSE
