-------------------------------- MODULE Grid --------------------------------
(***************************************************************************)
(* Sample points of the field tables, in scaled integers (unit 1/1000).     *)
(*                                                                         *)
(* Near field: Nx*Ny*Nz points start + i*increment per axis, x running      *)
(* fastest, then y, then z (the order of the NEAR FIELD blocks).            *)
(* Far field: N_theta*N_phi rows, zenith running fastest.                   *)
(* The generator is written as the loop nest it stands for: one Step per    *)
(* emitted point; the final state is dumped for replay against the code.    *)
(***************************************************************************)
EXTENDS Naturals, Integers, Sequences, FiniteSets, TLC, Json

CONSTANTS Starts, Steps,     \* sets of integers (milli-units); steps may be negative
          MaxN,              \* largest count on the swept axis (mode "axis")
          SmallN,            \* counts used on all three axes in mode "product"
          PStarts, PSteps    \* starts / steps used in mode "product"

VARIABLES ax,     \* <<[s, d, n], [s, d, n], [s, d, n]>> for x, y, z (or theta, phi, -)
          mode,   \* "axis" | "product"
          k,      \* number of points emitted so far
          out     \* emitted points as <<x, y, z>>

vars == <<ax, mode, k, out>>

Axis(S, D, N) == [s : S, d : D, n : N]
One == [s |-> 0, d |-> 1000, n |-> 1]

Init ==
  /\ k = 0 /\ out = <<>>
  /\ \/ /\ mode = "axis"
        /\ \E a \in Axis(Starts, Steps, 1..MaxN) : \E which \in 1..3 :
             ax = [j \in 1..3 |-> IF j = which THEN a ELSE One]
     \/ /\ mode = "product"
        /\ \E a \in Axis(PStarts, PSteps, SmallN) : \E b \in Axis(PStarts, PSteps, SmallN) :
           \E c \in Axis(PStarts, PSteps, SmallN) : ax = <<a, b, c>>

Total == ax[1].n * ax[2].n * ax[3].n
Coord(j, i) == ax[j].s + i * ax[j].d
\* the k-th point (0-based): x fastest, then y, then z
PointAt(q) == << Coord(1, q % ax[1].n),
                 Coord(2, (q \div ax[1].n) % ax[2].n),
                 Coord(3, q \div (ax[1].n * ax[2].n)) >>

Step ==
  /\ k < Total
  /\ out' = Append(out, PointAt(k))
  /\ k' = k + 1
  /\ UNCHANGED <<ax, mode>>

Next == Step
Spec == Init /\ [][Next]_vars

Done == k = Total

\* exactly the requested number of points
ExactCount == Done => Len(out) = ax[1].n * ax[2].n * ax[3].n
\* every point is start + i*step on each axis and every index triple occurs exactly once
OnLattice ==
  Done => \A q \in 1..Len(out) : \A j \in 1..3 :
            \E i \in 0..(ax[j].n - 1) : out[q][j] = Coord(j, i)
AllOnce ==
  Done => \A ix \in 0..(ax[1].n-1) : \A iy \in 0..(ax[2].n-1) : \A iz \in 0..(ax[3].n-1) :
            Cardinality({q \in 1..Len(out) : out[q] = <<Coord(1, ix), Coord(2, iy), Coord(3, iz)>>})
              = (IF ax[1].d = 0 THEN ax[1].n ELSE 1) * (IF ax[2].d = 0 THEN ax[2].n ELSE 1)
                * (IF ax[3].d = 0 THEN ax[3].n ELSE 1)
\* documented order: the first axis runs fastest
Order ==
  Done => \A q \in 1..(Len(out) - 1) :
            \/ (q % ax[1].n # 0 /\ out[q+1][1] = out[q][1] + ax[1].d /\ out[q+1][2] = out[q][2] /\ out[q+1][3] = out[q][3])
            \/ (q % ax[1].n = 0 /\ out[q+1][1] = ax[1].s)

Dump == Done => PrintT(ToJson([ax |-> ax, mode |-> mode, n |-> Len(out),
                               first |-> IF Len(out) > 0 THEN out[1] ELSE <<>>,
                               last |-> IF Len(out) > 0 THEN out[Len(out)] ELSE <<>>,
                               pts |-> IF mode = "product" THEN out ELSE <<>>]))
=============================================================================
