CONSTANTS MaxFaults = 1
 Singles = TRUE
SPECIFICATION LiveSpec
PROPERTY Termination
INVARIANT TypeOK
CHECK_DEADLOCK FALSE
