------------------------------- MODULE Cmdline -------------------------------
(***************************************************************************)
(* main() as a staged pipeline with fault sites.                            *)
(*                                                                         *)
(* The command line is processed in the fixed stage order StageNames (the   *)
(* hook events "Stage" of the real main() follow the same names).  A fault  *)
(* site is a degenerate value / arity / tag in one option group; it takes   *)
(* effect at one stage (SiteStage) and the error handling of that stage     *)
(* gives it one of the outcome kinds                                        *)
(*    usage      the option parser rejects it (SystemExit 2)                *)
(*    diag       one-line diagnostic, return value 23                       *)
(*    report     accepted: the value is legitimate for the program          *)
(*    crash      an exception escapes main()  (a recorded defect)           *)
(*    nonfinite  NaN / infinity reaches the report (a recorded defect)      *)
(* With several faults present the pipeline stops at the earliest stage at  *)
(* which one of them is not "report"; later stages are never reached.       *)
(***************************************************************************)
EXTENDS Naturals, Sequences, FiniteSets, TLC, Json, MC_Cmdline_table

CONSTANTS MaxFaults,      \* number of simultaneous faults explored
          Singles         \* TRUE: enumerate every single site exhaustively

NStages == Len(StageNames)
Sites == 1..NSites

VARIABLES faults,    \* set of fault sites present on the command line
          stage,     \* index of the stage being executed
          outcome,   \* "running" or the way main() ended
          fired      \* the site that ended the run (0 = none)

vars == <<faults, stage, outcome, fired>>

\* two faults are compatible when they sit on different option groups of one base command
Compatible(F) == \A a, b \in F : a # b => (SiteBase[a] = SiteBase[b] /\ SiteGroup[a] # SiteGroup[b])

Init == faults = {} /\ stage = 0 /\ outcome = "running" /\ fired = 0

\* the user writes the command line: faults are added one by one (stage 0), then main() starts
AddFault ==
  /\ stage = 0 /\ Cardinality(faults) < MaxFaults
  /\ \E a \in Sites : a \notin faults /\ Compatible(faults \cup {a}) /\ faults' = faults \cup {a}
  /\ UNCHANGED <<stage, outcome, fired>>
Start ==
  /\ stage = 0 /\ (Singles => Cardinality(faults) = MaxFaults \/ faults = {})
  /\ stage' = 1 /\ UNCHANGED <<faults, outcome, fired>>

\* candidates firing at the current stage (lowest site number first: a stage handles its
\* options in a fixed order; the choice among equal stages is left open)
FiringHere == {s \in faults : SiteStage[s] = stage /\ SiteKind[s] # "report"}

RunStage ==
  /\ outcome = "running" /\ stage >= 1
  /\ IF FiringHere # {}
     THEN \E s \in FiringHere :
            /\ outcome' = SiteKind[s] /\ fired' = s /\ UNCHANGED <<faults, stage>>
     ELSE IF stage = NStages
          THEN outcome' = "report" /\ UNCHANGED <<faults, stage, fired>>
          ELSE stage' = stage + 1 /\ UNCHANGED <<faults, outcome, fired>>

Next == AddFault \/ Start \/ RunStage
Spec == Init /\ [][Next]_vars

\* every run of main() ends: with weak fairness on the pipeline steps one of the outcomes is eventually reached
LiveSpec == Spec /\ WF_vars(Next)
Ended == outcome # "running"
\* exactly one of the legal endings (or a recorded defect), never "nothing"
ExactlyOneOutcome == Ended => outcome \in {"usage", "diag", "report", "crash", "nonfinite"}
\* the design is fail-safe: no site lets an exception or a non-finite number through
FailSafe == Ended => outcome \notin {"crash", "nonfinite"}
\* stages are never revisited and the run stops at the first firing stage
StopsAtFirst == Ended => \A s \in faults : (SiteKind[s] # "report" /\ fired # 0) => SiteStage[fired] <= SiteStage[s]
Termination == <>(outcome # "running")
TypeOK == stage \in 0..NStages /\ fired \in 0..NSites
\* every option is validated before the loop; inside the loop only setting the frequency and solving can end in a
\* diagnostic (singular matrix, no input power), and the report is printed after the loop: a diagnostic (or usage
\* error) is never preceded by a part of the report
StageIdx(name) == CHOOSE k \in 1..NStages : StageNames[k] = name
DiagBeforeOutput == \A s \in Sites : SiteKind[s] \in {"diag", "usage"} => SiteStage[s] < StageIdx("step_fields")
\* ... and a run that ended with a diagnostic stopped before anything was printed
DiagStopsEarly == (Ended /\ outcome \in {"diag", "usage"}) => stage < StageIdx("step_fields")

SetToSeq(S) == LET f[T \in SUBSET S] == IF T = {} THEN <<>> ELSE
                     LET m == CHOOSE x \in T : \A y \in T : x <= y IN <<m>> \o f[T \ {m}] IN f[S]
Dump == Ended => PrintT(ToJson([faults |-> SetToSeq(faults), outcome |-> outcome, fired |-> fired,
                                stage |-> StageNames[stage]]))
=============================================================================
