CONSTANTS Freqs = {7, 14, 21}
 Wires = {1, 2}
 FFReqs = {1, 2}
 NFReqs = {1}
 MaxLen = 6
 ZintSurvives = FALSE
 AllowRaw = FALSE
 Volts = {1, 2}
 MaxLoads = 1
 ZKept = FALSE
INIT Init
NEXT Next
INVARIANT NoStaleUse
INVARIANT FieldsFresh
INVARIANT Dump
PROPERTY RequestsIndependent
CHECK_DEADLOCK FALSE
