CONSTANTS Tags = {1, 2, 3}
 Keys = {1, 2, 10}
 MaxOps = 3
 MaxScales = 2
INIT Init
NEXT Next
INVARIANT ScaleLast
INVARIANT KeyOrder
INVARIANT Scope
INVARIANT Dump
CHECK_DEADLOCK FALSE
