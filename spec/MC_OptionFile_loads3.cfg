CONSTANTS MaxObj = 1
 MaxTag = 1
 MaxSrc = 1
 MaxLoad = 2
 MaxAttach = 3
 WriteUnitVoltage = TRUE
 WriteEveryTaggedDistributed = TRUE
 LoadsInKindOrder = TRUE
INIT Init
NEXT Next
INVARIANT Dump
CHECK_DEADLOCK FALSE
