------------------------------ MODULE Lifecycle ------------------------------
(***************************************************************************)
(* Life cycle of one Mininec object: frequency changes, compute, far- and   *)
(* near-field requests, and the caches that survive between them.           *)
(*                                                                         *)
(* Every stored result carries a provenance tag: the frequency (and the     *)
(* cache contents) it was derived from.  The property "results depend only  *)
(* on the inputs" is: whatever is produced at frequency x carries exactly   *)
(* the provenance a fresh object computing only that step would give.       *)
(*                                                                         *)
(* One action per public call / critical section of the code:               *)
(*   SetF          Mininec.f setter (invalidates Z, rhs -- and, since the   *)
(*                 repair of the skin-effect cache, Geobj.zint; the         *)
(*                 constant ZintSurvives = TRUE models the code before it)  *)
(*   FillZ         compute_impedance_matrix                                 *)
(*   ApplyLoads    compute_impedance_matrix_loads (adds onto Z; reads or    *)
(*                 fills the per-wire skin-effect cache zint and the        *)
(*                 frequency independent insulation cache zins)             *)
(*   FillRhs       compute_rhs                                              *)
(*   Solve         compute_currents (+ power in compute)                    *)
(*   Compute       Mininec.compute = FillZ ; ApplyLoads ; FillRhs ; Solve   *)
(*   FarField(r)   compute_far_field with request r                         *)
(*   NearField(r)  compute_near_field with request r                       *)
(*   SetV(x)       the user changes the generator voltages (Excitation      *)
(*                 .voltage); nothing is invalidated -- compute fills the   *)
(*                 right-hand side anew every time                          *)
(*   AddLoad       register_load of one more lumped load between computes   *)
(*                 (compute adds the loads onto a freshly filled matrix)    *)
(* The sweep loop of main() is the behaviour (SetF ; Compute ; NearField ;  *)
(* FarField)*.                                                             *)
(***************************************************************************)
EXTENDS Naturals, Sequences, FiniteSets, TLC, Json

CONSTANTS Freqs,          \* set of frequencies (naturals > 0)
          Wires,          \* wires carrying a skin-effect load
          FFReqs,         \* far-field requests
          NFReqs,         \* near-field requests
          MaxLen,         \* bound on the length of a history
          ZintSurvives,   \* TRUE: SetF leaves Geobj.zint alone (code before the repair)
          AllowRaw,       \* TRUE: the sub-steps of compute are public actions, too
          Volts,          \* voltage settings of the generators (1 = as constructed)
          MaxLoads,       \* how many lumped loads may be added after construction
          ZKept           \* TRUE: compute keeps a matrix that is already there ("it depends on geometry
                          \*   and frequency only") -- a variant the code does NOT implement

None == 0                     \* 'no frequency' (rhs, zint)
NoneR == [none |-> TRUE]      \* 'no result' (Z, cur, ff, nf)

VARIABLES f,      \* current frequency
          Z,      \* None or [at, nload, zi]: frequency of the fill, number of times the
                  \*   loads were added since, zint values (fill frequency per wire) used
          rhs,    \* None or frequency
          v,      \* current voltage setting
          rv,     \* voltage setting the right-hand side was filled with
          ld,     \* number of lumped loads added after construction
          cur,    \* None or [z, r, v]: provenance of the solved currents (and power)
          zint,   \* [Wires -> Freqs \cup {None}] fill frequency of the skin-effect cache
          zins,   \* [Wires -> BOOLEAN] insulation cache filled (frequency independent)
          ff,     \* None or [c, at, req]
          nf,     \* None or [c, at, req]
          hist    \* history of public calls (observation only)

vars == <<f, Z, rhs, v, rv, ld, cur, zint, zins, ff, nf, hist>>

Init ==
  /\ f \in Freqs
  /\ Z = NoneR /\ rhs = None /\ cur = NoneR
  /\ v = 1 /\ rv = None /\ ld = 0
  /\ zint = [w \in Wires |-> None]
  /\ zins = [w \in Wires |-> FALSE]
  /\ ff = NoneR /\ nf = NoneR
  /\ hist = << [op |-> "New", f |-> f] >>

\* ---------------------------------------------------------------- state functions
FillZ_(s)  == [s EXCEPT !.Z = [at |-> s.f, nload |-> 0, zi |-> [w \in Wires |-> None], loads |-> 0]]
ApplyLoads_(s) ==
  LET zi2 == [w \in Wires |-> IF s.zint[w] = None THEN s.f ELSE s.zint[w]] IN
  [s EXCEPT !.zint = zi2, !.zins = [w \in Wires |-> TRUE],
            !.Z = [at |-> s.Z.at, nload |-> s.Z.nload + 1, zi |-> zi2, loads |-> s.ld]]
FillRhs_(s) == [s EXCEPT !.rhs = s.f, !.rv = s.v]
Solve_(s)   == [s EXCEPT !.cur = [z |-> s.Z, r |-> s.rhs, v |-> s.rv]]
Compute_(s) == Solve_(FillRhs_(ApplyLoads_(IF ZKept /\ s.Z # NoneR THEN s ELSE FillZ_(s))))

St == [f |-> f, Z |-> Z, rhs |-> rhs, v |-> v, rv |-> rv, ld |-> ld, cur |-> cur, zint |-> zint, zins |-> zins]
Set(s) == /\ f' = s.f /\ Z' = s.Z /\ rhs' = s.rhs /\ cur' = s.cur
          /\ v' = s.v /\ rv' = s.rv /\ ld' = s.ld
          /\ zint' = s.zint /\ zins' = s.zins

Room == Len(hist) < MaxLen

\* ---------------------------------------------------------------- actions
DoSetF(x) ==
  /\ f' = x /\ Z' = NoneR /\ rhs' = None
  /\ zint' = IF ZintSurvives THEN zint ELSE [w \in Wires |-> None]
  /\ UNCHANGED <<v, rv, ld, cur, zins, ff, nf>>       \* the currents survive ("self.currents = None")
SetF(x) ==
  /\ Room
  /\ DoSetF(x)
  /\ hist' = Append(hist, [op |-> "SetF", f |-> x])

Compute ==
  /\ Room
  /\ Set(Compute_(St))
  /\ UNCHANGED <<ff, nf>>
  /\ hist' = Append(hist, [op |-> "Compute", f |-> f])

SetV(x) ==
  /\ Room /\ x # v
  /\ v' = x
  /\ UNCHANGED <<f, Z, rhs, rv, ld, cur, zint, zins, ff, nf>>
  /\ hist' = Append(hist, [op |-> "SetV", f |-> f, v |-> x])
AddLoad ==
  /\ Room /\ ld < MaxLoads
  /\ ld' = ld + 1
  /\ UNCHANGED <<f, Z, rhs, v, rv, cur, zint, zins, ff, nf>>
  /\ hist' = Append(hist, [op |-> "AddLoad", f |-> f, n |-> ld + 1])

\* field requests are well-formed only after a compute at the current frequency with the current
\* voltages and loads
CurrentIsCurrent == /\ cur # NoneR /\ cur.r = f /\ cur.z # NoneR /\ cur.z.at = f
                    /\ cur.v = v /\ cur.z.loads = ld
FarField(r) ==
  /\ Room /\ CurrentIsCurrent
  /\ ff' = [c |-> cur, at |-> f, req |-> r]
  /\ UNCHANGED <<f, Z, rhs, v, rv, ld, cur, zint, zins, nf>>
  /\ hist' = Append(hist, [op |-> "FarField", f |-> f, req |-> r])
NearField(r) ==
  /\ Room /\ CurrentIsCurrent
  /\ nf' = [c |-> cur, at |-> f, req |-> r]
  /\ UNCHANGED <<f, Z, rhs, v, rv, ld, cur, zint, zins, ff>>
  /\ hist' = Append(hist, [op |-> "NearField", f |-> f, req |-> r])

\* raw sub-steps (public methods as well; used by the trace specification)
RawFillZ      == Room /\ AllowRaw /\ Set(FillZ_(St)) /\ UNCHANGED <<ff, nf>>
                 /\ hist' = Append(hist, [op |-> "FillZ", f |-> f])
RawApplyLoads == Room /\ AllowRaw /\ Z # NoneR /\ Set(ApplyLoads_(St)) /\ UNCHANGED <<ff, nf>>
                 /\ hist' = Append(hist, [op |-> "ApplyLoads", f |-> f])
RawFillRhs    == Room /\ AllowRaw /\ Set(FillRhs_(St)) /\ UNCHANGED <<ff, nf>>
                 /\ hist' = Append(hist, [op |-> "FillRhs", f |-> f])
RawSolve      == Room /\ AllowRaw /\ Z # NoneR /\ rhs # None /\ Set(Solve_(St)) /\ UNCHANGED <<ff, nf>>
                 /\ hist' = Append(hist, [op |-> "Solve", f |-> f])

Next ==
  \/ \E x \in Freqs : SetF(x)
  \/ Compute
  \/ \E x \in Volts : SetV(x)
  \/ AddLoad
  \/ \E r \in FFReqs : FarField(r)
  \/ \E r \in NFReqs : NearField(r)
  \/ RawFillZ \/ RawApplyLoads \/ RawFillRhs \/ RawSolve

Spec == Init /\ [][Next]_vars

\* ---------------------------------------------------------------- properties
\* provenance of what a FRESH object computes at frequency x
FreshZ(x, n)      == [at |-> x, nload |-> 1, zi |-> [w \in Wires |-> x], loads |-> n]
FreshCur(x, vv, n) == [z |-> FreshZ(x, n), r |-> x, v |-> vv]

\* a history is "compute style" when it never uses the raw sub-steps
ComputeStyle == \A k \in 1..Len(hist) :
                  hist[k].op \in {"New", "SetF", "SetV", "AddLoad", "Compute", "FarField", "NearField"}

\* C14: what compute leaves behind equals what a fresh object would compute
\* (no stale cache, loads applied exactly once, matrix / rhs of this frequency)
NoStaleUse ==
  (ComputeStyle /\ hist[Len(hist)].op = "Compute") => cur = FreshCur(f, v, ld)
\* field results are functions of (model, frequency, request) only
FieldsFresh ==
  ComputeStyle =>
    /\ (ff # NoneR => ff.c = FreshCur(ff.at, ff.c.v, ff.c.z.loads))
    /\ (nf # NoneR => nf.c = FreshCur(nf.at, nf.c.v, nf.c.z.loads))
\* repeated / reordered requests: a field result never depends on the other
\* field result (they are separate variables written only by their own action)
RequestsIndependent ==
  [][(\E r \in FFReqs : FarField(r)) => UNCHANGED nf]_vars
\* frequency independent cache stays valid
ZinsFrequencyIndependent == \A w \in Wires : zins[w] \in BOOLEAN

Dump == (Len(hist) = MaxLen /\ ComputeStyle) => PrintT(ToJson(hist))
DumpAny == PrintT(ToJson(hist))
=============================================================================
