----------------------------- MODULE TopologyOn -----------------------------
(***************************************************************************)
(* Topology run on GIVEN object lists (instead of enumerating them):        *)
(*  - descriptions of one conductor structure constructed by the harness    *)
(*    (permutations, reversals, splits, mirror models) for C03 / C06,       *)
(*  - real models projected to point ids (end points clustered by the       *)
(*    property's own matching predicate) for the code -> spec direction.    *)
(* Every invariant of Topology is evaluated on every given list; the final  *)
(* state is dumped with the index of the list.                              *)
(***************************************************************************)
EXTENDS Topology, IOUtils, TLCExt

Inputs == JsonDeserialize(IOEnv.TRACE_FILE)      \* sequence of object lists
VARIABLE tid
ovars == <<vars, tid>>

InitOn ==
  /\ tid \in 1..Len(Inputs)
  /\ objs = [k \in 1..Len(Inputs[tid]) |-> [p1 |-> Inputs[tid][k].p1, p2 |-> Inputs[tid][k].p2,
                                             ns |-> Inputs[tid][k].ns, tag |-> Inputs[tid][k].tag,
                                             kind |-> Inputs[tid][k].kind]]
  /\ input = objs
  /\ stage = "tags" /\ i = 0
  /\ endDict = [p \in Pts |-> <<>>]
  /\ conn = <<>> /\ sgnBy = <<>> /\ pulses = <<>> /\ endSegs = <<>>
NextOn == (Tags \/ Connect) /\ UNCHANGED tid

DumpOn == Done => PrintT(ToJson([tid |-> tid, rec |-> DumpRec]))
RejectOn == (stage \in {"reject", "assert"}) =>
               PrintT(ToJson([tid |-> tid, rec |-> [input |-> input, reject |-> TRUE, assertion |-> (stage = "assert")]]))
=============================================================================
