CONSTANTS Freqs = {7, 14, 21}
 Wires = {1, 2}
 Volts = {1, 2}
 MaxLoads = 1
 FFReqs = {1, 2}
 NFReqs = {1}
 ZintSurvives = FALSE
 MaxLen = 6
INIT RInit
NEXT RNext
PROPERTY RefSpec
INVARIANT IndInv
INVARIANT Safety
CHECK_DEADLOCK FALSE
