CONSTANTS NObj = 2
 NP <- NP23
 MaxAtt = 3
 Rule = "count"
INIT Init
NEXT Next
INVARIANT RoundTrip
INVARIANT FixPoint
INVARIANT NotLonger
CHECK_DEADLOCK FALSE
