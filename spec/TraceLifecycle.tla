--------------------------- MODULE TraceLifecycle ---------------------------
(***************************************************************************)
(* Validates event traces recorded from real Mininec objects (hooks guarded *)
(* by PYMININEC_VERIF) against Lifecycle.  Many traces are batched in one   *)
(* TLC run: tid selects the trace, l is the position in it.  Per trace two  *)
(* registers are kept: the longest matched prefix and the first violated    *)
(* property (0 = none).  Frequencies and wires are small integer ids        *)
(* assigned by the harness.                                                 *)
(* The cache events split ApplyLoads into its critical sections:            *)
(*   CacheFill(w)  zint[w] was empty and is filled at the current frequency *)
(*   CacheUse(w)   zint[w] is read                                          *)
(*   ApplyLoads    the loads have been added to Z                           *)
(***************************************************************************)
EXTENDS Lifecycle, IOUtils, TLCExt

Traces == JsonDeserialize(IOEnv.TRACE_FILE)
NT == Len(Traces)
\* registers: t -> matched prefix, NT + t -> code of first violated property
ASSUME \A t \in 1..NT : TLCSet(t, 0) /\ TLCSet(NT + t, 0)

VARIABLES tid, l
tvars == <<vars, tid, l>>

Tr == Traces[tid]
Ev == Tr[l]

TInit ==
  /\ tid \in 1..NT
  /\ l = 1
  /\ f = Traces[tid][1].f             \* every trace starts with the SetF of __init__
  /\ Traces[tid][1].ev = "SetF"
  /\ Z = NoneR /\ rhs = None /\ cur = NoneR
  /\ v = 1 /\ rv = None /\ ld = 0        \* voltages and load count are not observed by the hooks
  /\ zint = [w \in Wires |-> None]
  /\ zins = [w \in Wires |-> FALSE]
  /\ ff = NoneR /\ nf = NoneR
  /\ hist = <<>>

IsEv(e) == l <= Len(Tr) /\ Ev.ev = e /\ l' = l + 1 /\ tid' = tid /\ UNCHANGED hist

TSetF == IsEv("SetF") /\ DoSetF(Ev.f)
TFillZ == /\ IsEv("FillZ") /\ Ev.f = f
          /\ Set(FillZ_(St)) /\ UNCHANGED <<ff, nf>>
TCacheFill == /\ IsEv("CacheFill") /\ Ev.f = f
              /\ zint[Ev.w] = None
              /\ zint' = [zint EXCEPT ![Ev.w] = f]
              /\ UNCHANGED <<f, Z, rhs, v, rv, ld, cur, zins, ff, nf>>
\* a use of a cache the design says is empty or of another frequency is accepted
\* as a step but flagged (code 1): the code read a value the design invalidated
TCacheUse == /\ IsEv("CacheUse") /\ Ev.f = f
             /\ UNCHANGED vars
TApplyLoads == /\ IsEv("ApplyLoads") /\ Ev.f = f
               /\ Z # NoneR
               /\ Z' = [at |-> Z.at, nload |-> Z.nload + 1, zi |-> zint, loads |-> ld]
               /\ UNCHANGED <<f, rhs, v, rv, ld, cur, zint, zins, ff, nf>>
TFillRhs == /\ IsEv("FillRhs") /\ Ev.f = f
            /\ Set(FillRhs_(St)) /\ UNCHANGED <<ff, nf>>
TSolve == /\ IsEv("Solve") /\ Ev.f = f
          /\ Z # NoneR /\ rhs # None
          /\ Set(Solve_(St)) /\ UNCHANGED <<ff, nf>>
TFarField == /\ IsEv("FarField") /\ Ev.f = f /\ cur # NoneR
             /\ ff' = [c |-> cur, at |-> f, req |-> 0]
             /\ UNCHANGED <<f, Z, rhs, v, rv, ld, cur, zint, zins, nf>>
TNearField == /\ IsEv("NearField") /\ Ev.f = f /\ cur # NoneR
              /\ nf' = [c |-> cur, at |-> f, req |-> 0]
              /\ UNCHANGED <<f, Z, rhs, v, rv, ld, cur, zint, zins, ff>>

TNext == TSetF \/ TFillZ \/ TCacheFill \/ TCacheUse \/ TApplyLoads \/ TFillRhs
           \/ TSolve \/ TFarField \/ TNearField
TSpec == TInit /\ [][TNext]_tvars

\* ---------------------------------------------------------------- properties on real executions
\* codes: 1 stale cache use, 2 loads applied more than once on one matrix fill,
\*        3 currents solved from a matrix / rhs of another frequency,
\*        4 field computed from currents of another frequency
Code ==
  IF l > 1 /\ Tr[l-1].ev = "CacheUse" /\ zint[Tr[l-1].w] # f THEN 1
  ELSE IF l > 1 /\ Tr[l-1].ev = "Solve" /\ cur # NoneR /\ cur.z.nload > 1 THEN 2
  ELSE IF l > 1 /\ Tr[l-1].ev = "Solve" /\ cur # NoneR /\ (cur.z.at # f \/ cur.r # f) THEN 3
  ELSE IF l > 1 /\ Tr[l-1].ev = "Solve" /\ cur # NoneR
          /\ (\E w \in Wires : cur.z.zi[w] # None /\ cur.z.zi[w] # f) THEN 1
  ELSE IF l > 1 /\ Tr[l-1].ev = "FarField" /\ ff # NoneR /\ ff.c.r # f THEN 4
  ELSE IF l > 1 /\ Tr[l-1].ev = "NearField" /\ nf # NoneR /\ nf.c.r # f THEN 4
  ELSE 0

Track ==
  /\ TLCSet(tid, IF TLCGet(tid) < l THEN l ELSE TLCGet(tid))
  /\ (Code # 0 /\ TLCGet(NT + tid) = 0) => TLCSet(NT + tid, Code)
Constr == Track

Post == \A t \in 1..NT : PrintT(<<"TV", t, TLCGet(t), Len(Traces[t]) + 1, TLCGet(NT + t)>>)
=============================================================================
