INIT TInit
NEXT TNext
CONSTRAINT Constr
POSTCONDITION Post
CHECK_DEADLOCK FALSE
