CONSTANTS MaxObj = 2
 MaxTag = 0
 MaxSrc = 0
 MaxLoad = 1
 MaxAttach = 2
 WriteUnitVoltage = TRUE
 WriteEveryTaggedDistributed = TRUE
 LoadsInKindOrder = TRUE
INIT Init
NEXT Next
INVARIANT Dump
CHECK_DEADLOCK FALSE
