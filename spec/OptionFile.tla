----------------------------- MODULE OptionFile -----------------------------
(***************************************************************************)
(* Abstract model  <->  option tokens  (Mininec.as_cmdline  /  main).       *)
(*                                                                         *)
(* The user builds a model with a command line (Build* actions), the        *)
(* program writes the option file (Write = Encode, transcribing the         *)
(* as_cmdline writers), and reads it back (Read = Decode, transcribing the  *)
(* relevant parts of main(): arcs, then helices, then wires; automatic      *)
(* tags after the largest explicit one; loads numbered by KIND in the       *)
(* order impedance, RLC, trap, Laplace; sources = zip(pulses, voltages)).   *)
(* Numeric parameters are abstract value ids; what is modelled is           *)
(* everything discrete: which option, which tag / index, which order.       *)
(*                                                                         *)
(* Constants select the writer variants:                                    *)
(*   WriteUnitVoltage   TRUE: a 1 V source among several is written with    *)
(*                      its voltage (code since the repair), FALSE: omitted *)
(*   WriteEveryTaggedDistributed  TRUE: every tagged skin-effect load is    *)
(*                      written, FALSE: only the first of the class         *)
(*   LoadsInKindOrder   TRUE: loads are written in kind order with the      *)
(*                      numbers the reader will assign; FALSE: in           *)
(*                      registration order with registration numbers        *)
(***************************************************************************)
EXTENDS Naturals, Sequences, FiniteSets, TLC, Json, SequencesExt, FiniteSetsExt

CONSTANTS MaxObj, MaxTag, MaxSrc, MaxLoad, MaxAttach,
          WriteUnitVoltage, WriteEveryTaggedDistributed, LoadsInKindOrder

Kinds == <<"A", "H", "W">>              \* main() appends arcs, helices, wires in this order
KindRank(k) == CHOOSE i \in 1..3 : Kinds[i] = k
LoadKinds == <<"Z", "RLC", "TRAP", "LAP">>
LoadRank(k) == CHOOSE i \in 1..4 : LoadKinds[i] = k

VARIABLES phase,    \* "build" | "written" | "read"
          cmd,      \* the user's command line, as the lists main() collects per option
          M,        \* abstract model after main(cmd)
          toks,     \* tokens written by as_cmdline(M)
          M2        \* abstract model after main(toks)
vars == <<phase, cmd, M, toks, M2>>

\* ---------------------------------------------------------------- command line -> model (main)
\* cmd = [arcs, helices, wires : Seq([tag, id]), taper : Seq([tag, typ]),
\*        pulses : Seq([form, k, tag]), volts : Seq(v), loads : [Z, RLC, TRAP, LAP : Seq(id)],
\*        attach : Seq([n, form, k, tag]), skin : Seq([tag, v]) ]     (tag 0 = none / automatic)
EmptyCmd == [objs |-> <<>>, taper |-> <<>>, pulses |-> <<>>, volts |-> <<>>,
             loads |-> [k \in 1..4 |-> <<>>], attach |-> <<>>, skin |-> <<>>]

ObjsOfKind(c, k) == SelectSeq(c.objs, LAMBDA o : o.kind = k)
InOrder(c) == ObjsOfKind(c, "A") \o ObjsOfKind(c, "H") \o ObjsOfKind(c, "W")
MaxOf(S) == IF S = {} THEN 0 ELSE Max(S)
Tagged(os) ==
  LET base == MaxOf({os[i].tag : i \in 1..Len(os)})
      nAuto(i) == Cardinality({j \in 1..(i-1) : os[j].tag = 0})
  IN [i \in 1..Len(os) |-> [kind |-> os[i].kind, id |-> os[i].id, had |-> os[i].tag # 0,
                             tag |-> IF os[i].tag = 0 THEN base + nAuto(i) + 1 ELSE os[i].tag]]
TagsOf(os) == {os[i].tag : i \in 1..Len(os)}

\* loads as numbered by main: kind order, then order of appearance
LoadList(c) == [k \in 1..4 |-> [i \in 1..Len(c.loads[k]) |-> [kind |-> LoadKinds[k], id |-> c.loads[k][i]]]]
Numbered(c) == LoadList(c)[1] \o LoadList(c)[2] \o LoadList(c)[3] \o LoadList(c)[4]

Accepts(c) ==
  LET os == Tagged(InOrder(c)) IN
  /\ Len(c.objs) >= 1
  /\ Cardinality(TagsOf(os)) = Len(os)                       \* no duplicate tag
  /\ \A i \in 1..Len(c.taper) : \E j \in 1..Len(os) : os[j].tag = c.taper[i].tag /\ os[j].kind = "W"
  /\ (IF c.pulses = <<>> THEN 1 ELSE Len(c.pulses)) = (IF c.volts = <<>> THEN 1 ELSE Len(c.volts))
  /\ \A i \in 1..Len(c.pulses) : c.pulses[i].tag = 0 \/ c.pulses[i].tag \in TagsOf(os)
  /\ \A i \in 1..Len(c.attach) : /\ c.attach[i].n \in 1..Len(Numbered(c))
                                 /\ (c.attach[i].tag = 0 \/ c.attach[i].tag \in TagsOf(os))
  /\ \A n \in 1..Len(Numbered(c)) : \E i \in 1..Len(c.attach) : c.attach[i].n = n   \* all loads used
  /\ \A i \in 1..Len(c.skin) : c.skin[i].tag = 0 \/ c.skin[i].tag \in TagsOf(os)
  /\ \A i, j \in 1..Len(c.skin) : i # j => (c.skin[i].tag # c.skin[j].tag /\ c.skin[i].tag # 0 /\ c.skin[j].tag # 0)

\* the model main() builds
ModelOf(c) ==
  LET os == SortSeq(Tagged(InOrder(c)), LAMBDA a, b : a.tag < b.tag)
      srcs == IF c.pulses = <<>> THEN << [form |-> "default", k |-> 5, tag |-> 0, v |-> 1] >>
              ELSE [i \in 1..Len(c.pulses) |->
                      [form |-> c.pulses[i].form, k |-> c.pulses[i].k, tag |-> c.pulses[i].tag,
                       v |-> IF c.volts = <<>> THEN 1 ELSE c.volts[i]]]
      num == Numbered(c)
      \* m.loads: in order of first attachment; each with its attachments in order
      first(n) == Min({i \in 1..Len(c.attach) : c.attach[i].n = n})
      order == SortSeq([n \in 1..Len(num) |-> n], LAMBDA a, b : first(a) < first(b))
      lds == [p \in 1..Len(order) |->
                [kind |-> num[order[p]].kind, id |-> num[order[p]].id,
                 att |-> SelectSeq(c.attach, LAMBDA a : a.n = order[p])]]
  IN [objs |-> os,
      taper |-> {<<c.taper[i].tag, c.taper[i].typ>> : i \in 1..Len(c.taper)},
      srcs |-> srcs,
      loads |-> [p \in 1..Len(lds) |-> [kind |-> lds[p].kind, id |-> lds[p].id,
                   att |-> [q \in 1..Len(lds[p].att) |-> [form |-> lds[p].att[q].form, k |-> lds[p].att[q].k,
                                                           tag |-> lds[p].att[q].tag]]]],
      skin |-> c.skin]

\* ---------------------------------------------------------------- model -> tokens (as_cmdline)
\* tokens are a command line again (same record shape as cmd)
Encode(m) ==
  LET objs == [i \in 1..Len(m.objs) |-> [kind |-> m.objs[i].kind, id |-> m.objs[i].id,
                                          tag |-> IF m.objs[i].had THEN m.objs[i].tag ELSE 0]]
      taper == SetToSortSeq({[tag |-> t[1], typ |-> t[2]] : t \in m.taper}, LAMBDA a, b : a.tag < b.tag)
      several == Len(m.srcs) > 1
      notdef == SelectSeq(m.srcs, LAMBDA s : s.form # "default")
      pulses == [i \in 1..Len(notdef) |-> [form |-> notdef[i].form, k |-> notdef[i].k, tag |-> notdef[i].tag]]
      withv == SelectSeq(m.srcs, LAMBDA s : s.v # 1 \/ (WriteUnitVoltage /\ several))
      volts == [i \in 1..Len(withv) |-> withv[i].v]
      \* load numbers written into the attach options
      perm == IF LoadsInKindOrder
              THEN SortSeq([p \in 1..Len(m.loads) |-> p],
                           LAMBDA a, b : LoadRank(m.loads[a].kind) < LoadRank(m.loads[b].kind)
                                         \/ (LoadRank(m.loads[a].kind) = LoadRank(m.loads[b].kind) /\ a < b))
              ELSE [p \in 1..Len(m.loads) |-> p]
      numOf(p) == CHOOSE q \in 1..Len(perm) : perm[q] = p     \* number written for m.loads[p]
      loadsOf(k) == LET sel == SelectSeq(perm, LAMBDA p : m.loads[p].kind = LoadKinds[k])
                    IN [i \in 1..Len(sel) |-> m.loads[sel[i]].id]
      attOf(p) == [q \in 1..Len(m.loads[p].att) |->
                     [n |-> numOf(p), form |-> m.loads[p].att[q].form, k |-> m.loads[p].att[q].k,
                      tag |-> m.loads[p].att[q].tag]]
      attach == FoldLeft(LAMBDA acc, p : acc \o attOf(p), <<>>, perm)
      skin == IF WriteEveryTaggedDistributed \/ Len(m.skin) <= 1 THEN m.skin ELSE << m.skin[1] >>
  IN [objs |-> objs, taper |-> taper, pulses |-> pulses, volts |-> volts,
      loads |-> [k \in 1..4 |-> loadsOf(k)], attach |-> attach, skin |-> skin]

\* ---------------------------------------------------------------- actions
Init == phase = "build" /\ cmd = EmptyCmd /\ M = <<>> /\ toks = <<>> /\ M2 = <<>>

\* the lists main() collects are independent of the order in which the user mixes different
\* options; they are therefore built in one canonical order (objects, taper, sources, loads,
\* attachments, skin effect)
NoLater(n) == /\ (n < 2 => cmd.taper = <<>>) /\ (n < 3 => cmd.pulses = <<>>)
              /\ (n < 4 => Numbered(cmd) = <<>>) /\ (n < 5 => cmd.attach = <<>>) /\ (n < 6 => cmd.skin = <<>>)
KnownTags == TagsOf(Tagged(InOrder(cmd)))
AddObj ==
  /\ phase = "build" /\ Len(cmd.objs) < MaxObj /\ NoLater(1)
  /\ \E k \in {"A", "H", "W"} : \E t \in 0..MaxTag :
       cmd' = [cmd EXCEPT !.objs = Append(@, [kind |-> k, tag |-> t, id |-> Len(cmd.objs) + 1])]
  /\ UNCHANGED <<phase, M, toks, M2>>
AddTaper ==
  /\ phase = "build" /\ Len(cmd.taper) < 1 /\ NoLater(2)
  /\ \E t \in KnownTags : \E ty \in 1..2 :
       cmd' = [cmd EXCEPT !.taper = Append(@, [tag |-> t, typ |-> ty])]
  /\ UNCHANGED <<phase, M, toks, M2>>
AddSource ==
  /\ phase = "build" /\ Len(cmd.pulses) < MaxSrc /\ NoLater(3)
  /\ \E fm \in {"abs", "rel"} : \E v \in {1, 2} : \E t \in KnownTags :
       /\ (fm = "abs" => t = Min(KnownTags))
       /\ cmd' = [cmd EXCEPT !.pulses = Append(@, [form |-> fm, k |-> 1, tag |-> IF fm = "rel" THEN t ELSE 0]),
                          !.volts = Append(@, v)]
  /\ UNCHANGED <<phase, M, toks, M2>>
AddLoad ==
  /\ phase = "build" /\ Len(Numbered(cmd)) < MaxLoad /\ NoLater(4)
  /\ \E k \in 1..4 : cmd' = [cmd EXCEPT !.loads[k] = Append(@, 10 * k + Len(@) + 1)]
  /\ UNCHANGED <<phase, M, toks, M2>>
Attach ==
  /\ phase = "build" /\ Len(cmd.attach) < MaxAttach /\ Len(Numbered(cmd)) >= 1 /\ NoLater(5)
  /\ \E n \in 1..Len(Numbered(cmd)) : \E fm \in {"abs", "rel", "alltag", "all"} : \E t \in KnownTags : \E kk \in 1..2 :
       /\ (fm \in {"abs", "all"} => t = Min(KnownTags))
       /\ (fm \in {"alltag", "all"} => kk = 1)
       /\ cmd' = [cmd EXCEPT !.attach = Append(@, [n |-> n, form |-> fm, k |-> IF fm \in {"abs", "rel"} THEN kk ELSE 0,
                                                  tag |-> IF fm \in {"rel", "alltag"} THEN t ELSE 0])]
  /\ UNCHANGED <<phase, M, toks, M2>>
AddSkin ==
  /\ phase = "build" /\ Len(cmd.skin) < 2
  /\ \E t \in {0} \cup KnownTags : cmd' = [cmd EXCEPT !.skin = Append(@, [tag |-> t, v |-> Len(@) + 1])]
  /\ UNCHANGED <<phase, M, toks, M2>>

Write ==
  /\ phase = "build" /\ Accepts(cmd)
  /\ M' = ModelOf(cmd) /\ toks' = Encode(ModelOf(cmd))
  /\ phase' = "written" /\ UNCHANGED <<cmd, M2>>
Read ==
  /\ phase = "written"
  /\ M2' = IF Accepts(toks) THEN ModelOf(toks) ELSE [rejected |-> TRUE]
  /\ phase' = "read" /\ UNCHANGED <<cmd, M, toks>>

Next == AddObj \/ AddTaper \/ AddSource \/ AddLoad \/ Attach \/ AddSkin \/ Write \/ Read
Spec == Init /\ [][Next]_vars

\* ---------------------------------------------------------------- properties
\* what "the same model" means: sources compare by what they address and their voltage
\* (an absolute source stays absolute); loads by kind, value and what they are attached to;
\* the "default" source marker is not part of the model
Norm(m) == [objs |-> m.objs, taper |-> m.taper,
            srcs |-> [i \in 1..Len(m.srcs) |-> [k |-> m.srcs[i].k, tag |-> m.srcs[i].tag, v |-> m.srcs[i].v,
                                                 rel |-> m.srcs[i].form = "rel"]],
            loads |-> {[kind |-> m.loads[p].kind, id |-> m.loads[p].id, att |-> m.loads[p].att] : p \in 1..Len(m.loads)},
            skin |-> {m.skin[i] : i \in 1..Len(m.skin)}]
Accepted == phase = "read" => M2 # [rejected |-> TRUE]
RoundTrip == (phase = "read" /\ M2 # [rejected |-> TRUE]) => Norm(M2) = Norm(M)
FixPoint == (phase = "read" /\ M2 # [rejected |-> TRUE]) => Encode(M2) = toks

Dump == phase = "read" => PrintT(ToJson([cmd |-> cmd, toks |-> toks,
                                         ok |-> (M2 # [rejected |-> TRUE] /\ Norm(M2) = Norm(M))]))
=============================================================================
