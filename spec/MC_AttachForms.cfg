CONSTANTS NObj = 2
 NP <- NP23
 MaxAtt = 3
 Rule = "once"
INIT Init
NEXT Next
INVARIANT RoundTrip
INVARIANT FixPoint
INVARIANT NotLonger
INVARIANT Dump
CHECK_DEADLOCK FALSE
