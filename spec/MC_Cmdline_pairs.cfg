CONSTANTS MaxFaults = 2
 Singles = TRUE
INIT Init
NEXT Next
INVARIANT ExactlyOneOutcome
INVARIANT StopsAtFirst
INVARIANT TypeOK
INVARIANT DiagBeforeOutput
INVARIANT DiagStopsEarly
INVARIANT Dump
CHECK_DEADLOCK FALSE
