# /verif setup: nothing is compiled; checks the tools the checks need (offline).
.PHONY: setup manifest selftest
setup:
	@java -version 2>&1 | head -1
	@test -f /opt/veriftools/tla/tla2tools.jar || (echo "tla2tools.jar missing"; exit 1)
	@which apalache-mc >/dev/null || (echo "apalache-mc missing"; exit 1)
	@/venv/bin/python -c "import numpy, scipy; print('numpy', numpy.__version__, 'scipy', scipy.__version__)"
	@mkdir -p work evidence replays
	@/venv/bin/python -c "import sys; sys.path.insert(0,'/repo'); import mininec.mininec; print('mininec import ok')"
	@echo setup ok
manifest:
	python3 tools/gen_manifest.py
