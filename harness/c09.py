"""C09 -- Kirchhoff current law and end conditions in the current report.

TLC checks KCL, FreeEndZero, JunctionEndIsSum on the coefficient vectors of
the J/E lines for every configuration of spec/Topology.tla.  Binding: for
every final state the real CURRENT DATA block is rendered with synthetic
currents and the exact integer coefficient of every pulse current in every
J/E line is read back from the text (harness/topo.decode_lines); they must
equal the specification's, and KCL / zero free ends are evaluated on the
decoded coefficients themselves.
"""
import json
import numpy as np
from . import common as C
from . import topo as T
from . import report as R

PID = 'C09'
INVS = ['KCL', 'FreeEndZero', 'JunctionEndIsSum']


def check_record(args):
    rec, ground, mode, sd = args
    inp = rec['input']
    out = dict(mism=[], exc=None)
    if rec.get('reject'):
        return out
    try:
        if mode == 'exact':
            conc = T.Concretiser()
        else:
            # ends the specification joins a hair apart (below the matching tolerance), ends it keeps apart a few
            # tolerances from each other: the J / E lines must follow the documented matching rule
            import random
            from .c12 import NearMiss, LowJunction
            rnd = random.Random('%s/%s/%s' % (sd, mode, C.h(inp)))
            if mode == 'low-junction':
                # a junction 1.5 matching tolerances above z = 0 is not on the ground
                conc = LowJunction(rnd, inp)
                if conc.low is None:
                    return out
            else:
                conc = T.Concretiser(rnd, jitter=1e-5) if mode == 'jitter' else NearMiss(rnd, inp, diag=(mode == 'nearmiss-diag'))
        m = T.build(inp, ground, conc)
        lines, rows = T.decode_lines(m)
    except R.ReportError as e:
        out['mism'].append(('report-grammar', str(e)))
        return out
    except Exception as e:      # noqa
        out['exc'] = repr(e)
        return out
    exp = T.spec_lines(rec)
    objs = rec['objs']
    n = len(rec['pulses'])
    # (1) line by line against the specification
    for o in range(len(objs)):
        for e in (0, 1):
            a, b = lines[o][e], exp[o][e]
            a = tuple(a) if isinstance(a, (list, tuple)) else a
            b = tuple(b) if isinstance(b, (list, tuple)) else b
            if a != b:
                kind = 'line-kind' if (a if isinstance(a, str) else a[0]) != \
                    (b if isinstance(b, str) else b[0]) else 'line-coef'
                nlinks = len(b[1]) if not isinstance(b, str) else 0
                last_only = False
                if kind == 'line-coef' and nlinks >= 2:
                    ql = max(b[1])
                    last_only = (a[1] == {ql: b[1][ql]})
                out['mism'].append((kind, dict(obj=o + 1, end=e + 1, code=str(a),
                                               spec=str(b), nlinks=nlinks,
                                               last_only=last_only)))
    if rows != rec['rows']:
        out['mism'].append(('numbered-rows', dict(code=rows, spec=rec['rows'])))
    # (2) the property itself on the decoded coefficients
    pts = {}
    for o, ob in enumerate(objs):
        for e, p in enumerate((ob['p1'], ob['p2'])):
            if ground and p > 100:
                continue
            pts.setdefault(p, []).append((o, e))
    for p, ends in pts.items():
        if len(ends) == 1:
            o, e = ends[0]
            if lines[o][e] != 'E':
                out['mism'].append(('free-end-not-E', dict(obj=o + 1, end=e + 1)))
            continue
        tot = {}
        ok = True
        for o, e in ends:
            l = lines[o][e]
            if isinstance(l, str):
                out['mism'].append(('junction-end-not-J', dict(obj=o + 1, end=e + 1, got=l)))
                ok = False
                continue
            for q, c in l[1].items():
                tot[q] = tot.get(q, 0) + (c if e == 1 else -c)
        if ok and any(v != 0 for v in tot.values()):
            first = min(ends)
            # residual predicted if the hub's first-end line shows only its last link
            pred = {}
            if first[1] == 0 and not isinstance(exp[first[0]][0], str):
                sc = exp[first[0]][0][1]
                ql = max(sc)
                pred = {q: c for q, c in sc.items() if q != ql}
            res = {k: v for k, v in tot.items() if v}
            out['mism'].append(('kcl', dict(point=p, ends=[(o + 1, e + 1) for o, e in ends],
                                            residual={str(k): v for k, v in res.items()},
                                            hub_end=first[1] + 1, nends=len(ends),
                                            last_only=(res == pred and bool(pred)))))
    return out


def jobs(chk, tier):
    sd = C.seed()
    for r, g, cfg in T.records(chk, tier, INVS, runs=T.deep_runs(tier)):
        if not r.get('reject'):
            yield (r, g, 'exact', sd)
            if len(r['input']) >= 2 and not any(o.get('kind') == 'A' for o in r['input']):
                k = C.pick(('c09-near', C.h(r['input']), g), 1.0 if tier == 'thorough' else 0.34, sd)
                if k:
                    yield (r, g, 'jitter', sd)
                    yield (r, g, 'nearmiss', sd)
                    yield (r, g, 'nearmiss-diag', sd)
                    yield (r, g, 'low-junction', sd)


def signature(kind, d, rec):
    """discrete identification of what fails (used for known findings)"""
    sig = dict(kind=kind)
    if kind in ('kcl',):
        sig['hub_end'] = d['hub_end']
        sig['nends_ge3'] = d['nends'] >= 3
        sig['only_last_link_shown'] = d['last_only']
    if kind == 'line-coef':
        sig['end'] = d['end']
        sig['nlinks_ge2'] = d['nlinks'] >= 2
        sig['only_last_link_shown'] = d['last_only']
    return sig


def real_model_binding(chk):
    """code -> spec on the repository's own models: J/E lines of the real report against the
       coefficient vectors TopologyOn.tla derives for the projected object list"""
    import glob, os, io, contextlib
    from .c12 import project_input
    from mininec.mininec import main, Mininec
    models = []
    for f in sorted(glob.glob(os.path.join(C.REPO, 'test', '*.pym'))):
        args = ' '.join(l for l in open(f) if not l.startswith('#')).split()
        out, err = io.StringIO(), io.StringIO()
        try:
            with contextlib.redirect_stdout(out), contextlib.redirect_stderr(err):
                m = main(args, f_err=err, return_mininec=True)
        except SystemExit:
            continue
        except Exception as e:      # noqa -- a stored model of the repository that the program cannot build
            chk.violation(dict(kind='real-model-cannot-be-built', exc=type(e).__name__), dict(model=os.path.basename(f), exc=repr(e)))
            continue
        if isinstance(m, Mininec):
            inp = project_input(m)
            if inp is not None:
                models.append((os.path.basename(f), m, inp))
    n = 0
    for ground in (True, False):
        sel = [x for x in models if (x[1].media is not None) == ground]
        if not sel:
            continue
        try:
            recs = T.spec_records(chk, [x[2] for x in sel], ground, name='c09-real-%s' % ground)
        except C.SpecViolation as e:
            # the projection of a REAL model violates an invariant of the specification
            chk.violation(dict(kind='real-model-violates-spec-invariant', invariant=e.invariant),
                          dict(models=[x[0] for x in sel], ground=ground))
            continue
        for (name, m, inp), rec in zip(sel, recs):
            if rec.get('reject'):
                continue
            try:
                lines, rows = T.decode_lines(m)
            except R.ReportError as e:
                chk.violation(dict(kind='report-grammar', model=name), dict(model=name, msg=str(e)))
                continue
            exp = T.spec_lines(rec)
            n += 1
            chk.case('real/' + name, any(e2['kind'] == 'J' for l2 in rec['lines'] for e2 in l2),
                     sample=dict(model=name, objects=len(inp)))
            chk.traces += 1
            for o in range(len(inp)):
                for e in (0, 1):
                    a, b = lines[o][e], exp[o][e]
                    a = tuple(a) if isinstance(a, (list, tuple)) else a
                    b = tuple(b) if isinstance(b, (list, tuple)) else b
                    if a != b:
                        nl = len(b[1]) if not isinstance(b, str) else 0
                        last_only = False
                        if nl >= 2 and not isinstance(a, str):
                            ql = max(b[1])
                            last_only = (a[1] == {ql: b[1][ql]})
                        chk.violation(dict(kind='line-coef', end=e + 1, nlinks_ge2=nl >= 2, only_last_link_shown=last_only),
                                      dict(model=name, obj=o + 1, end=e + 1, code=str(a), spec=str(b)))
            if rows != rec['rows']:
                chk.violation(dict(kind='numbered-rows', model=name), dict(model=name))
    chk.cov['real_models_validated'] = n


def run(tier):
    chk = C.Check(PID, tier, 'model_checking')
    chk.assumptions = [
        'TLC 1.8 on spec/Topology.tla (configs in tlc_runs)',
        'the coefficient decoding renders the real CURRENT DATA block with synthetic currents 5^k (8 pulses per real/imaginary channel) and relies on linearity of the block in Mininec.current',
        'wires only; grounded ends carry no J/E line (the ground pulse is a numbered row)']
    for (r, g, mode, _), o in C.parallel_imap(check_record, jobs(chk, tier)):
        inp = r['input']
        njunc = sum(1 for l2 in r['lines'] for e in l2 if e['kind'] == 'J')
        chk.case(dict(i=inp, g=g), njunc > 0,
                 sample=dict(input=inp, ground=g,
                             lines=[[e['kind'] for e in l2] for l2 in r['lines']]))
        chk.traces += 1
        if o['exc']:
            chk.violation(dict(kind='exception', exc=o['exc'].split('(')[0]),
                          dict(input=inp, ground=g, exc=o['exc'], spec=r))
        for kind, d in o['mism']:
            chk.violation(signature(kind, d, r) if isinstance(d, dict) else dict(kind=kind),
                          dict(input=inp, ground=g, what=kind, info=d, spec=r))
    real_model_binding(chk)
    return chk.finish(
        rule='one case per accepted final state printed by TLC; non-trivial = at least one junction (J) line; '
             'distinct by hash of (abstract input, ground)')


def replay(path):
    d = json.load(open(path))['detail']
    out = check_record((d['spec'], d['ground'], 'exact', C.seed()))
    print(json.dumps(out, indent=1, default=str))
    return 1 if (out['mism'] or out['exc']) else 0
