"""C17 -- pulse addressing: sources and loads act on exactly the pulse named.

TLC checks OwnerIsLaterTag, TagOrder, TagAssignment, AddrFormsAgree, AllOnce
on every configuration of spec/Topology.tla and predicts, per object (by
tag), the list of global pulse numbers (opulses).  Binding: for every final
state the model is built through the real command line (main) with sources
and loads in every addressing form; Excitation.idx, load.pulses, the SOURCE
and LOAD listings and the rows of the ANTENNA GEOMETRY table must name the
pulses the specification predicts; the all-absolute and the mixed-form
command lines must give identical reports; invalid numbers are diagnostics.
"""
import io, json, random, contextlib
import numpy as np
from . import common as C
from . import topo as T
from . import report as R
from mininec.mininec import (main, Mininec, Wire, Excitation, Impedance_Load,
                             ideal_ground)

PID = 'C17'
INVS = ['OwnerIsLaterTag', 'TagOrder', 'TagAssignment', 'AddrFormsAgree', 'AllOnce']


def wire_args(inp, conc):
    seen = set()
    args = []
    for o in inp:
        ends = []
        for pid in (o['p1'], o['p2']):
            ends.append(conc.point(pid, pid not in seen))
            seen.add(pid)
        v = [o['ns']] + ['%.12g' % x for x in ends[0] + ends[1]] + ['0.001']
        if o['tag']:
            v = [o['tag']] + v
        args.append('--wire=' + ','.join(str(x) for x in v))
    return args


def run_main(argv):
    out, err = io.StringIO(), io.StringIO()
    with contextlib.redirect_stdout(out), contextlib.redirect_stderr(err):
        try:
            r = main(argv, f_err=err, return_mininec=True)
        except SystemExit as e:         # the option parser rejected the command line
            r = 'usage-error-%s' % (e.code,)
    return r, out.getvalue() + err.getvalue()


def listing(m):
    head = R.parse_head((m.sources_as_mininec() + '\n' + m.loads_as_mininec()).split('\n'))
    return [s['pulse'] for s in head['sources']], [l['pulse'] for l in head['loads']]


def check_record(args):
    rec, ground, mode, sd = args
    inp = rec['input']
    out = dict(mism=[], exc=None, nforms=0)
    if rec.get('reject'):
        return out
    rnd = random.Random('%s/%s' % (sd, C.h(inp)))
    tags = [o['tag'] for o in rec['objs']]
    opulses = rec['opulses']
    N = len(rec['pulses'])
    base = wire_args(inp, T.Concretiser()) + ['-f', '10']
    if ground:
        base.append('--medium=0,0,0')
    try:
        # ---- every (k, tag) and every absolute number, one source each ----
        for o, lst in enumerate(opulses):
            for k, q in enumerate(lst):
                m, txt = run_main(base + ['--excitation-pulse=%d,%d' % (k + 1, tags[o])])
                if not isinstance(m, Mininec):
                    out['mism'].append(('valid-source-rejected', dict(form='rel', k=k + 1, tag=tags[o], msg=txt[:200])))
                    continue
                out['nforms'] += 1
                if m.sources[0].idx != q:
                    out['mism'].append(('source-idx', dict(form='rel', k=k + 1, tag=tags[o],
                                                           code=int(m.sources[0].idx), spec=q)))
                sl, _ = listing(m)
                if sl != [q + 1]:
                    out['mism'].append(('source-listing', dict(form='rel', listed=sl, spec=q + 1)))
                geom, _, _, _ = T.report_geometry(m)
                blk = [b for b in geom if b['tag'] == tags[o]]
                if len(blk) != 1 or len(blk[0]['rows']) <= k or blk[0]['rows'][k][2] != q + 1:
                    out['mism'].append(('geometry-row', dict(k=k + 1, tag=tags[o], spec=q + 1)))
        for q in range(N):
            m, txt = run_main(base + ['--excitation-pulse=%d' % (q + 1)])
            if not isinstance(m, Mininec):
                out['mism'].append(('valid-source-rejected', dict(form='abs', q=q + 1, msg=txt[:200])))
                continue
            out['nforms'] += 1
            if m.sources[0].idx != q:
                out['mism'].append(('source-idx', dict(form='abs', code=int(m.sources[0].idx), spec=q)))
        # ---- invalid numbers are diagnostics ----
        bad = ['--excitation-pulse=%d' % (N + 1), '--excitation-pulse=0']
        for o, lst in enumerate(opulses):
            bad.append('--excitation-pulse=%d,%d' % (len(lst) + 1, tags[o]))
            bad.append('--excitation-pulse=0,%d' % tags[o])
        bad.append('--excitation-pulse=1,%d' % (max(tags) + 1))
        for b in bad:
            m, txt = run_main(base + [b])
            if m != 23:
                out['mism'].append(('invalid-source-accepted', dict(arg=b)))
        if N == 0:
            return out
        # ---- load attachment forms ----
        rel = {q: (k + 1, tags[o]) for o, lst in enumerate(opulses) for k, q in enumerate(lst)}
        forms = []      # (attach args, expected pulse list)
        q = rnd.randrange(N)
        forms.append((['--attach-load=1,%d' % (q + 1)], [q]))
        forms.append((['--attach-load=1,%d,%d' % rel[q]], [q]))
        for o, lst in enumerate(opulses):
            if lst:
                forms.append((['--attach-load=1,all,%d' % tags[o]], list(lst)))
        forms.append((['--attach-load=1,all'], [x for lst in opulses for x in lst]))
        # combinations: one load attached twice -- every attachment adds its pulses, also a pulse named before
        #   (two series elements on that pulse)
        o_q = next(o for o, lst in enumerate(opulses) if q in lst)
        forms.append((['--attach-load=1,%d' % (q + 1), '--attach-load=1,all,%d' % tags[o_q]], [q] + list(opulses[o_q])))
        forms.append((['--attach-load=1,%d,%d' % rel[q], '--attach-load=1,%d' % (q + 1)], [q, q]))
        forms.append((['--attach-load=1,all', '--attach-load=1,%d' % (q + 1)], [x for lst in opulses for x in lst] + [q]))
        for args_, exp in forms:
            m, txt = run_main(base + ['--excitation-pulse=1', '--load=7+3j'] + args_)
            if not isinstance(m, Mininec):
                out['mism'].append(('valid-load-rejected', dict(args=args_, msg=txt[:200])))
                continue
            out['nforms'] += 1
            got = [int(p.idx) for p in m.loads[0].pulses]
            if got != exp:
                out['mism'].append(('load-pulses', dict(args=args_, code=got, spec=exp)))
            _, ll = listing(m)
            if ll != [x + 1 for x in exp]:
                out['mism'].append(('load-listing', dict(args=args_, listed=ll, spec=[x + 1 for x in exp])))
            # the program's own per-object description of the attachment (as_cmdline, load_by_geo: "k-th pulse of
            # the object with tag t") must name the same pulses when it is read back
            if got == exp:
                from .c15 import tokens
                mb, txt = run_main(tokens(m.as_cmdline(load_by_geo=True)))
                if not isinstance(mb, Mininec):
                    out['mism'].append(('valid-load-rejected', dict(args=args_, msg='written per-object form: ' + txt[:200])))
                elif sorted(int(p.idx) for l in mb.loads for p in l.pulses) != sorted(exp):
                    out['mism'].append(('per-object-form-written-names-other-pulses',
                                        dict(args=args_, code=sorted(int(p.idx) for l in mb.loads for p in l.pulses), spec=sorted(exp))))
            # "loads each of those pulses exactly once", "both forms give identical results": the load terms of the
            # matrix equal those of the same antenna with one separate single-pulse load per attached pulse
            if len(exp) >= 2 and got == exp:
                sep = ['--load=7+3j'] * len(exp) + ['--attach-load=%d,%d' % (i_ + 1, x + 1) for i_, x in enumerate(exp)]
                ms, txt = run_main(base + ['--excitation-pulse=1'] + sep)
                if not isinstance(ms, Mininec):
                    out['mism'].append(('valid-load-rejected', dict(args=sep, msg=txt[:200])))
                else:
                    dd = []
                    for mm in (m, ms):
                        mm.Z = np.zeros((N, N), dtype=complex)
                        mm.compute_impedance_matrix_loads()
                        dd.append(np.array(mm.Z))
                        mm.Z = None
                    if not np.allclose(dd[0], dd[1], rtol=1e-13, atol=0):
                        bad = [int(x) for x in np.nonzero(~np.isclose(np.diag(dd[0]), np.diag(dd[1]), rtol=1e-13, atol=0))[0]]
                        out['mism'].append(('load-terms-differ-from-single-pulse-loads', dict(args=args_, pulses=bad)))
        # ---- a distributed load given for ONE object covers every pulse with a half segment on that object
        #      (its own rows and the junction pulses other objects own at its ends), each exactly once ----
        for o in range(len(opulses)):
            exp = sorted(q for q, pu in enumerate(rec['pulses']) if o + 1 in (pu['sa'][0], pu['sb'][0]))
            if not exp:
                continue
            opt = rnd.choice(['--skin-effect-conductivity=5e7,%d', '--insulation-load=0.004,3,%d']) % tags[o]
            m, txt = run_main(base + ['--excitation-pulse=1', opt])
            if not isinstance(m, Mininec):
                out['mism'].append(('valid-load-rejected', dict(args=[opt], msg=txt[:200])))
                continue
            out['nforms'] += 1
            got = [int(p.idx) for l in m.loads for p in l.pulses]
            if sorted(got) != exp:
                out['mism'].append(('distributed-load-pulses', dict(args=[opt], code=sorted(got), spec=exp,
                                                                    twice=len(got) != len(set(got)))))
            _, ll = listing(m)
            if sorted(ll) != [x + 1 for x in exp]:
                out['mism'].append(('distributed-load-listing', dict(args=[opt], listed=ll, spec=[x + 1 for x in exp])))
        for b in (['--attach-load=1,0,%d' % tags[0]], ['--attach-load=1,-1,%d' % tags[0]],
                  ['--attach-load=1,-%d,%d' % (len(opulses[0]) + 3, tags[0])], ['--attach-load=1,-1'],
                  ['--attach-load=1,%d' % (N + 1)], ['--attach-load=1,0'],
                  ['--attach-load=1,1,%d' % (max(tags) + 1)],
                  ['--attach-load=1,%d,%d' % (len(opulses[0]) + 1, tags[0])]):
            m, txt = run_main(base + ['--excitation-pulse=1', '--load=7+3j'] + b)
            if m != 23:
                out['mism'].append(('invalid-load-accepted', dict(args=b)))
        # ---- several sources and loads, all-absolute vs mixed forms ----
        ns = min(N, rnd.choice([2, 3]))
        qs = rnd.sample(range(N), ns)
        gq = [q for q, pu in enumerate(rec['pulses']) if pu['gnd'] != -1]
        if gq and ns >= 2 and rnd.random() < 0.6:
            # a pulse on a grounded wire end named first, ordinary pulses after it
            g0 = rnd.choice(gq)
            qs = [g0] + [q for q in qs if q != g0][:ns - 1]
        volts = ['%d%+dj' % (rnd.randint(1, 9), rnd.randint(-5, 5)) for _ in qs]
        lq = [rnd.randrange(N) for _ in range(2)]
        a_abs, a_mix = [], []
        for q, v in zip(qs, volts):
            a_abs += ['--excitation-pulse=%d' % (q + 1), '--excitation-voltage=' + v]
            if rnd.random() < 0.6:
                a_mix += ['--excitation-pulse=%d,%d' % rel[q], '--excitation-voltage=' + v]
            else:
                a_mix += ['--excitation-pulse=%d' % (q + 1), '--excitation-voltage=' + v]
        a_abs += ['--load=50+5j', '--load=3-20j']
        a_mix += ['--load=50+5j', '--load=3-20j']
        for li, q in enumerate(lq):
            a_abs.append('--attach-load=%d,%d' % (li + 1, q + 1))
            a_mix.append('--attach-load=%d,%d,%d' % ((li + 1,) + rel[q]) if rnd.random() < 0.7
                         else '--attach-load=%d,%d' % (li + 1, q + 1))
        m1, t1 = run_main(base + a_abs)
        m2, t2 = run_main(base + a_mix)
        if not isinstance(m1, Mininec) or not isinstance(m2, Mininec):
            out['mism'].append(('valid-multi-rejected', dict(abs=a_abs, mix=a_mix, msg=(t1 + t2)[:300])))
        else:
            out['nforms'] += 2
            for mm, nm in ((m1, 'abs'), (m2, 'mixed')):
                got = [int(s.idx) for s in mm.sources]
                if got != qs:
                    out['mism'].append(('multi-source-idx', dict(form=nm, code=got, spec=qs, args=a_mix)))
                got = [[int(p.idx) for p in l.pulses] for l in mm.loads]
                if got != [[q] for q in lq]:
                    out['mism'].append(('multi-load-pulses', dict(form=nm, code=got, spec=lq)))
                sl, ll = listing(mm)
                if sl != [q + 1 for q in qs] or ll != [q + 1 for q in lq]:
                    out['mism'].append(('multi-listing', dict(form=nm, sources=sl, loads=ll)))
            # identical results: right-hand side and load terms exactly, and
            # (sampled) the solved report
            m1.compute_rhs(); m2.compute_rhs()
            if not np.array_equal(m1.rhs, m2.rhs):
                out['mism'].append(('forms-differ-rhs', dict(args=a_mix)))
            # exactly the named pulses are driven, each with its own voltage: whatever the order in which
            # the sources are named
            nz = [int(q) for q in np.nonzero(m1.rhs)[0]]
            if nz != sorted(qs):
                out['mism'].append(('rhs-support', dict(driven=nz, named=sorted(qs))))
            order = list(range(len(qs)))[::-1]
            a_rev = []
            for i_ in order:
                a_rev += ['--excitation-pulse=%d' % (qs[i_] + 1), '--excitation-voltage=' + volts[i_]]
            m3, t3 = run_main(base + a_rev + a_abs[2 * len(qs):])
            if isinstance(m3, Mininec):
                m3.compute_rhs()
                if not np.allclose(m3.rhs, m1.rhs, rtol=1e-14, atol=0):
                    out['mism'].append(('rhs-depends-on-source-order', dict(args=a_abs, grounded_first=qs[0] in gq)))
            else:
                out['mism'].append(('valid-multi-rejected', dict(abs=a_rev, msg=t3[:300])))
            pairs = [frozenset((o['p1'], o['p2'])) for o in inp]
            if mode == 'solve' and len(set(pairs)) == len(pairs):
                # (overlapping wires between the same two points make the
                # system singular; they are addressed but not solved)
                try:
                    m1.compute(); m2.compute()
                except np.linalg.LinAlgError:
                    out['skipped'] = 'singular'
                else:
                    r1, r2 = m1.as_mininec(set()), m2.as_mininec(set())
                    if r1 != r2:
                        out['mism'].append(('forms-differ-report', dict(args=a_mix)))
                    out['solved'] = True
    except R.ReportError as e:
        out['mism'].append(('report-grammar', dict(msg=str(e))))
    except Exception as e:      # noqa
        import traceback
        out['exc'] = repr(e) + traceback.format_exc()[-600:]
    return out


def jobs(chk, tier):
    sd = C.seed()
    rnd = C.rng('c17')
    frac = 0.1 if tier == 'quick' else 0.3
    # every record costs about 15 runs of main(); the exhaustive 3-object configuration of the
    # thorough tier is replayed on a seeded 4 % sample (TLC still checks the invariants on all of it)
    keep = C.rng('c17-keep')
    for r, g, cfg in T.records(chk, tier, INVS):
        if 't3' in cfg or 'free3' in cfg:
            if not C.pick([r.get('input'), g], 0.04, 'c17-keep'):
                continue
        if r.get('reject') or any(o.get('kind') == 'A' for o in r['input']):
            continue            # (curve objects are addressed like wires; main() orders arcs before wires)
        yield (r, g, 'solve' if C.pick([r['input'], g], frac, 'c17-solve') else 'nosolve', sd)


def run(tier):
    chk = C.Check(PID, tier, 'model_checking')
    chk.assumptions = [
        'TLC 1.8 on spec/Topology.tla (configs in tlc_runs)',
        'models are built through mininec.mininec.main(argv, return_mininec=True) so the option parsing of --excitation-pulse / --attach-load is part of what is checked',
        'wires only; tags explicit / automatic / mixed as enumerated by the specification']
    for (r, g, mode, _), o in C.parallel_imap(check_record, jobs(chk, tier), chunksize=16):
        inp = r['input']
        tags = [x['tag'] for x in inp]
        nontrivial = len(r['pulses']) >= 2 and len(inp) >= 2
        chk.case(dict(i=inp, g=g), nontrivial,
                 sample=dict(input=inp, ground=g, opulses=r['opulses'],
                             tags=[x['tag'] for x in r['objs']]), n=max(1, o['nforms']))
        chk.traces += 1
        if o.get('skipped'):
            chk.skip(o['skipped'])
        if o.get('solved'):
            chk.cov['solved_pairs'] = chk.cov.get('solved_pairs', 0) + 1
        if o['exc']:
            chk.violation(dict(kind='exception', exc=o['exc'].split('(')[0]),
                          dict(input=inp, ground=g, exc=o['exc'], spec=r, mode=mode))
        for kind, d in o['mism']:
            chk.violation(dict(kind=kind, form=d.get('form')),
                          dict(input=inp, ground=g, what=kind, info=d, spec=r, mode=mode))
    return chk.finish(
        rule='one case per accepted final state printed by TLC, evaluations count the command lines run for it (every '
             'valid (k,tag) and absolute source, every load attachment form, a multi-source mixed-form pair); '
             'non-trivial = at least two objects and two pulses; distinct by hash of (abstract input, ground)')


def replay(path):
    d = json.load(open(path))['detail']
    out = check_record((d['spec'], d['ground'], d.get('mode', 'solve'), C.seed()))
    print(json.dumps(out, indent=1, default=str))
    return 1 if (out['mism'] or out['exc']) else 0
