"""Geometry of the pulses of a Topology record on concrete coordinates, built
from the SPECIFICATION's pulse table (not from Mininec.pulses), and the
MININEC formulation evaluated on it:

  far_field(...)       radiation sum with the current moment of every half
                       segment at its pulse point (plus images over ground)
  surrogate_matrix()   the impedance matrix of the MININEC-3 formulation when
                       the kernel integral psi is replaced by the exact line
                       integral of R^2 (a polynomial "surrogate kernel")
  surrogate_fields()   E and H of the pulse currents and charges under the
                       same surrogate kernel (closed forms)

install_surrogate() replaces Mininec.psi in the harness process by the
surrogate, honouring psi's calling contract (the length of the integration
path is |scale| * seg_len of the half selected by the sign of scale).
"""
import math, random
import numpy as np
import mininec.mininec as MM
from mininec.mininec import Mininec, Wire, ideal_ground

G0 = 29.979221


class Layout:
    """seeded coordinates for the point ids of a record (free ids z >= 1 unit,
       ground ids z = 0), all distinct, on a lattice of the given unit"""

    def __init__(self, inp, rnd, unit):
        ids = sorted({p for o in inp for p in (o['p1'], o['p2'])})
        used = set()
        self.xyz = {}
        for pid in ids:
            for _ in range(1000):
                c = (rnd.randint(0, 4), rnd.randint(0, 4), 0 if pid > 100 else rnd.randint(1, 4))
                if c not in used:
                    break
            used.add(c)
            self.xyz[pid] = np.array(c, dtype=float) * unit
        self.unit = unit

    def point(self, pid, first=True):
        return tuple(self.xyz[pid])


class SpecGeom:
    """pulse geometry from the spec record + layout"""

    def __init__(self, rec, layout, ground, radius, segs=None, radii=None):
        """segs: optional {(object, segment): (p1, p2)} -- the segmentation of tapered wires
           (where the segment ends lie is the subject of C13; WHICH segments a pulse joins
           comes from the specification)"""
        self.segs = segs
        self.radii = radii          # optional {object: radius}: the surrogate kernel depends on the
                                    # radius of the source half (as the true kernel does)
        self.rec = rec
        self.ground = ground
        objs = rec['objs']
        self.P = [(layout.xyz[o['p1']], layout.xyz[o['p2']]) for o in objs]
        self.ns = [o['ns'] for o in objs]
        self.radius = radius
        self.pulses = []
        for pu in rec['pulses']:
            self.pulses.append(self._pulse(pu))

    def seg(self, obj, k):
        if self.segs is not None:
            a, b = self.segs[(obj, k)]
            d = b - a
            return a, b, d / np.linalg.norm(d), float(np.linalg.norm(d))
        p1, p2 = self.P[obj - 1]
        n = self.ns[obj - 1]
        d = (p2 - p1)
        L = np.linalg.norm(d) / n
        u = d / np.linalg.norm(d)
        return p1 + (k - 1) * L * u, p1 + k * L * u, u, L

    def _pulse(self, pu):
        o = pu['owner']
        kind = pu['kind']
        a1, a2, ua, La = self.seg(*pu['sa'])
        b1, b2, ub, Lb = self.seg(*pu['sb'])
        invz = np.array([1.0, 1.0, -1.0])
        sg = list(pu['sgn'])
        gnd_sgn = [1.0, 1.0]
        ground = [False, False]
        if kind == 'I':
            pt = a2
            ends = [a1, b2]
        elif kind == 'J1':
            pt = self.P[o - 1][0]
            ends = [pt - ua * La * sg[0], b2]
        elif kind == 'J2':
            pt = self.P[o - 1][1]
            ends = [a1, pt + ub * Lb * sg[1]]
        elif kind == 'G1':
            pt = self.P[o - 1][0]
            ends = [b2 * invz, b2]
            ground[0] = True
            gnd_sgn[0] = -1.0
        else:   # G2
            pt = self.P[o - 1][1]
            ends = [a1, pt - ua * La * invz]
            ground[1] = True
            gnd_sgn[1] = -1.0
        sign = [sg[0] * gnd_sgn[0], sg[1] * gnd_sgn[1]]
        rad = [self.radii[pu['sa'][0]], self.radii[pu['sb'][0]]] if self.radii else [self.radius, self.radius]
        return dict(rad=rad, rfac=[rfac(rad[0]), rfac(rad[1])], pt=np.array(pt, float), ends=[np.array(e, float) for e in ends], dirs=[ua, ub],
                    lens=[La, Lb], dir_sgn=sg, sign=sign, gnd_sgn=gnd_sgn, ground=ground,
                    grounded=any(ground))

    # ---------------------------------------------------------------- far field
    def far_F(self, I, k, rhat, exact=False):
        """exact: the radiation integral over the straight half segments (phase centre at the middle of each half,
           factor sin(x)/x) instead of the current moment placed at the pulse point"""
        F = np.zeros(3, dtype=complex)
        imgs = (1, -1) if self.ground else (1,)
        for p, cur in zip(self.pulses, I):
            for img in imgs:
                kv = np.array([1, 1, img])
                x = p['pt'] * kv
                ph0 = np.exp(1j * k * np.dot(rhat, x))
                for h in range(2):
                    d = p['dirs'][h]
                    ph = ph0
                    if exact:
                        he = self.half(p, -1 if h == 0 else 1)
                        c = 0.5 * (p['pt'] + he) * kv
                        xx = 0.5 * k * float(np.dot(rhat, (he - p['pt']) * kv))
                        ph = np.exp(1j * k * np.dot(rhat, c)) * (math.sin(xx) / xx if abs(xx) > 1e-12 else 1.0)
                    if p['grounded'] and exact:
                        # the real half and, separately, its mirror image (the half "below ground" IS that image)
                        if p['ground'][h]:
                            continue
                        vec = d if img == 1 else d * np.array([-1, -1, 1])
                    elif p['grounded']:
                        if p['ground'][h] or img == -1:
                            continue
                        vec = np.array([0, 0, 2 * d[2]])
                    elif img == 1:
                        vec = d
                    else:
                        vec = d * np.array([-1, -1, 1])
                    F += cur * p['sign'][h] * k * p['lens'][h] / 2 * ph * vec
        return F

    def far_E(self, I, k, theta_deg, phi_deg, exact=False):
        t, p_ = math.radians(theta_deg), math.radians(phi_deg)
        rhat = np.array([math.sin(t) * math.cos(p_), math.sin(t) * math.sin(p_), math.cos(t)])
        that = np.array([math.cos(t) * math.cos(p_), math.cos(t) * math.sin(p_), -math.sin(t)])
        phat = np.array([-math.sin(p_), math.cos(p_), 0.0])
        F = self.far_F(I, k, rhat, exact)
        return -1j * G0 * np.dot(F, that), -1j * G0 * np.dot(F, phat)

    # ---------------------------------------------------------------- surrogate kernel
    @staticmethod
    def psi(obs, a, b):
        v2 = a - obs
        d = b - a
        L = np.linalg.norm(d)
        return (v2 @ v2 + v2 @ d + d @ d / 3.0) * L

    @staticmethod
    def grad(r, a, b):
        d = b - a
        L = np.linalg.norm(d)
        return 2 * L * (r - (a + d / 2))

    def half(self, p, s):
        """end point of the half segment of pulse p in direction s = -1 / +1"""
        return p['pt'] + 0.5 * (p['ends'][0 if s < 0 else 1] - p['pt'])

    def surrogate_matrix(self, k, with_scale=False):
        """with_scale: also the largest magnitude of a potential term an entry is composed of (the scale the
           deviation of an entry is measured against: entries can cancel to nothing, e.g. coincident wires)"""
        n = len(self.pulses)
        Z = np.zeros((n, n), dtype=complex)
        S = 0.0
        w2 = k * k / 2
        ks = (1, -1) if self.ground else (1,)
        psi = self.psi
        for mi, pm in enumerate(self.pulses):
            xm = pm['pt']
            hm_m, hm_p = self.half(pm, -1), self.half(pm, 1)
            zzz = sum(pm['dir_sgn'][h] * pm['lens'][h] * pm['dirs'][h] for h in range(2))
            for ni, pn in enumerate(self.pulses):
                for kk in ks:
                    if kk < 0 and pn['grounded']:
                        continue
                    kv = np.array([1.0, 1.0, kk])
                    xn = pn['pt'] * kv
                    a_m, a_p = self.half(pn, -1) * kv, self.half(pn, 1) * kv
                    e_m, e_p = pn['ends'][0] * kv, pn['ends'][1] * kv
                    f0, f1 = pn['rfac']
                    u = psi(xm, xn, a_p) * pn['sign'][1] * f1
                    v = psi(xm, a_m, xn) * pn['sign'][0] * f0
                    g = pn['gnd_sgn']
                    vec3 = (np.array([1, 1, g[1]]) * u * pn['dirs'][1] +
                            np.array([1, 1, g[0]]) * v * pn['dirs'][0]) * kv
                    dterm = w2 * (vec3 @ zzz)
                    u12 = ((psi(hm_m, xn, e_p) - psi(hm_p, xn, e_p)) / pn['lens'][1] * f1 +
                           (psi(hm_p, e_m, xn) - psi(hm_m, e_m, xn)) / pn['lens'][0] * f0)
                    Z[mi, ni] += kk * (dterm + u12)
                    if with_scale:
                        S = max(S, abs(w2) * (abs(u) + abs(v)) * float(np.abs(zzz).max() or 0),
                                max(abs(psi(hm_m, xn, e_p)), abs(psi(hm_p, xn, e_p))) / pn['lens'][1] * f1,
                                max(abs(psi(hm_p, e_m, xn)), abs(psi(hm_m, e_m, xn))) / pn['lens'][0] * f0)
        return (Z, S) if with_scale else Z

    # ---------------------------------------------------------------- true kernel (numerical)
    _GL = np.polynomial.legendre.leggauss(40)

    @classmethod
    def psi_true(cls, obs, a, b, k, a2):
        """integral of exp(-jkR)/R along the straight piece a..b, R^2 = |r - r'|^2 + a2 (a2 = radius^2 of the source wire
           for the thick-wire kernel, 0 below the thin-wire limit); 40-point Gauss-Legendre: for observation points
           half a segment or more away the integrand is smooth and the rule exact to rounding"""
        x, w = cls._GL
        t = 0.5 * (x + 1.0)
        p = a[None, :] + t[:, None] * (b - a)[None, :]
        R = np.sqrt(((p - obs[None, :]) ** 2).sum(1) + a2)
        return complex((0.5 * w * np.exp(-1j * k * R) / R).sum() * np.linalg.norm(b - a))

    @classmethod
    def grad_true(cls, obs, a, b, k, a2):
        """gradient with respect to the observation point of psi_true"""
        x, w = cls._GL
        t = 0.5 * (x + 1.0)
        p = a[None, :] + t[:, None] * (b - a)[None, :]
        dv = obs[None, :] - p
        R = np.sqrt((dv ** 2).sum(1) + a2)
        g = -(1.0 + 1j * k * R) * np.exp(-1j * k * R) / R ** 3
        return ((0.5 * w * g)[:, None] * dv).sum(0) * np.linalg.norm(b - a)

    def true_fields(self, I, k, mfac, r, srm):
        """E and H at r (power scaling 1) of the pulse currents and their charges with the true kernel (image currents over
           ground): the same expressions as surrogate_fields, the kernel integrals evaluated numerically"""
        ks = (1, -1) if self.ground else (1,)
        k2 = k * k
        E = np.zeros(3, dtype=complex)
        H = np.zeros(3, dtype=complex)
        for p, cur in zip(self.pulses, I):
            a2 = [x * x if x > srm else 0.0 for x in p['rad']]
            for kk in ks:
                if kk < 0 and p['grounded']:
                    continue
                kv = np.array([1.0, 1.0, kk])
                x = p['pt'] * kv
                hm, hp = self.half(p, -1) * kv, self.half(p, 1) * kv
                em, ep = p['ends'][0] * kv, p['ends'][1] * kv
                g = p['gnd_sgn']
                D0 = p['dirs'][0] * np.array([1, 1, g[0]]) * kv * p['sign'][0]
                D1 = p['dirs'][1] * np.array([1, 1, g[1]]) * kv * p['sign'][1]
                A = D0 * self.psi_true(r, hm, x, k, a2[0]) + D1 * self.psi_true(r, x, hp, k, a2[1])
                gphi = self.grad_true(r, x, ep, k, a2[1]) / p['lens'][1] - self.grad_true(r, em, x, k, a2[0]) / p['lens'][0]
                E += cur * kk * (k2 * A - gphi)
                H += cur * kk * (np.cross(self.grad_true(r, hm, x, k, a2[0]), D0) + np.cross(self.grad_true(r, x, hp, k, a2[1]), D1))
        return -1j * mfac * E, H / (4 * math.pi)

    def clearance(self, r):
        """distance of r from the nearest conductor (or image) in units of the segment length of that conductor"""
        best = 1e300
        for p in self.pulses:
            for kk in ((1, -1) if self.ground else (1,)):
                kv = np.array([1.0, 1.0, kk])
                for h in range(2):
                    a, b = p['pt'] * kv, p['ends'][h] * kv
                    d = b - a
                    t = min(1.0, max(0.0, float(np.dot(r - a, d) / np.dot(d, d))))
                    best = min(best, float(np.linalg.norm(r - (a + t * d))) / p['lens'][h])
        return best

    def true_matrix(self, k, srm, min_sep=2.5):
        """the published MININEC-3 formulation with the true kernel for all pulse pairs whose centres are at least
           min_sep segment lengths (of the longest of the four segments involved) apart: (Z, scale, mask); scale =
           sum of the magnitudes of the potential terms an entry is composed of"""
        n = len(self.pulses)
        Z = np.zeros((n, n), dtype=complex)
        S = np.zeros((n, n))
        M = np.zeros((n, n), dtype=bool)
        w2 = k * k / 2
        ks = (1, -1) if self.ground else (1,)
        for mi, pm in enumerate(self.pulses):
            xm = pm['pt']
            hm_m, hm_p = self.half(pm, -1), self.half(pm, 1)
            zzz = sum(pm['dir_sgn'][h] * pm['lens'][h] * pm['dirs'][h] for h in range(2))
            for ni, pn in enumerate(self.pulses):
                if np.linalg.norm(pm['pt'] - pn['pt']) < min_sep * max(pm['lens'] + pn['lens']):
                    continue
                M[mi, ni] = True
                a2 = [r * r if r > srm else 0.0 for r in pn['rad']]
                for kk in ks:
                    if kk < 0 and pn['grounded']:
                        continue
                    kv = np.array([1.0, 1.0, kk])
                    xn = pn['pt'] * kv
                    a_m, a_p = self.half(pn, -1) * kv, self.half(pn, 1) * kv
                    e_m, e_p = pn['ends'][0] * kv, pn['ends'][1] * kv
                    u = self.psi_true(xm, xn, a_p, k, a2[1]) * pn['sign'][1]
                    v = self.psi_true(xm, a_m, xn, k, a2[0]) * pn['sign'][0]
                    g = pn['gnd_sgn']
                    vec3 = (np.array([1, 1, g[1]]) * u * pn['dirs'][1] +
                            np.array([1, 1, g[0]]) * v * pn['dirs'][0]) * kv
                    t1 = [self.psi_true(hm_m, xn, e_p, k, a2[1]), self.psi_true(hm_p, xn, e_p, k, a2[1]),
                          self.psi_true(hm_p, e_m, xn, k, a2[0]), self.psi_true(hm_m, e_m, xn, k, a2[0])]
                    u12 = (t1[0] - t1[1]) / pn['lens'][1] + (t1[2] - t1[3]) / pn['lens'][0]
                    Z[mi, ni] += kk * (w2 * (vec3 @ zzz) + u12)
                    S[mi, ni] += (abs(w2) * (abs(u) + abs(v)) * float(np.abs(zzz).max()) +
                                  (abs(t1[0]) + abs(t1[1])) / pn['lens'][1] + (abs(t1[2]) + abs(t1[3])) / pn['lens'][0])
        return Z, S, M

    def surrogate_fields(self, I, k, mfac, r):
        """E and H at r (power scaling 1) under the surrogate kernel"""
        ks = (1, -1) if self.ground else (1,)
        k2 = k * k
        E = np.zeros(3, dtype=complex)
        H = np.zeros(3, dtype=complex)
        psi = lambda a, b: self.psi(r, a, b)
        grad = lambda a, b: self.grad(r, a, b)
        for p, cur in zip(self.pulses, I):
            for kk in ks:
                if kk < 0 and p['grounded']:
                    continue
                kv = np.array([1.0, 1.0, kk])
                x = p['pt'] * kv
                hm, hp = self.half(p, -1) * kv, self.half(p, 1) * kv
                em, ep = p['ends'][0] * kv, p['ends'][1] * kv
                g = p['gnd_sgn']
                D0 = p['dirs'][0] * np.array([1, 1, g[0]]) * kv * p['sign'][0]
                D1 = p['dirs'][1] * np.array([1, 1, g[1]]) * kv * p['sign'][1]
                f0, f1 = p['rfac']
                A = D0 * psi(hm, x) * f0 + D1 * psi(x, hp) * f1
                gphi = grad(x, ep) / p['lens'][1] * f1 - grad(em, x) / p['lens'][0] * f0
                E += cur * kk * (k2 * A - gphi)
                H += cur * kk * (np.cross(grad(hm, x), D0) * f0 + np.cross(grad(x, hp), D1) * f1)
        return -1j * mfac * E, H / (4 * math.pi)


def rfac(r):
    """dependence of the surrogate kernel on the radius of the source half"""
    return 1.0 + 300.0 * r


def psi_surrogate(self, vec2, vecv, k, scale, pidx, exact=False, fvs=0):
    v2 = np.asarray(vec2, float)
    vv = np.asarray(vecv, float)
    d = vv - v2
    half = int(scale > 0)
    L = abs(scale) * self.pulses.seg_len.T[half][pidx]
    r = self.pulses.radius.T[half][pidx]
    val = np.sum(v2 * v2, axis=-1) + np.sum(v2 * d, axis=-1) + np.sum(d * d, axis=-1) / 3.0
    return (val * L * rfac(r)).astype(complex)


def install_surrogate():
    if not hasattr(Mininec, 'psi'):
        raise RuntimeError('Mininec.psi is gone: the surrogate-kernel device no longer applies')
    Mininec.psi = psi_surrogate


def build_real(rec, layout, ground, f, radius, media=None, taper=None, taper_max=False, vary_radius=True):
    """taper: optional random.Random -- wires with >= 2 segments get a seeded taper type; with
       taper_max wires of >= 5 segments also get a maximum segment length, which produces a run
       of equal-length segments next to the tapered ones"""
    ws = []
    for o in rec['input']:
        tag = o['tag'] or None
        k_in = len(ws)
        w = Wire(o['ns'], *layout.point(o['p1']), *layout.point(o['p2']),
                 radius * (1.0 + 0.5 * (k_in % 3)) if vary_radius else radius, tag=tag)
        if taper is not None and o['ns'] >= 2:
            w.segtype = taper.choice([0, 1, 2, 3])
            if taper_max and o['ns'] >= 5 and w.segtype:
                w.taper_max = 1.25 * w.wire_len / o['ns']
        ws.append(w)
    if media is None:
        media = [ideal_ground] if ground else None
    return Mininec(f, ws, media=media)


def real_segmentation(m):
    """{(object, segment): (p1, p2)} of the real model (1-based, objects in tag order)"""
    return {(g.n + 1, s.idx + 1): (np.array(s.p1, float), np.array(s.p2, float))
            for g in m.geo for s in g.segments}


LONG_INPUTS = [
    ([dict(p1=101, p2=1, ns=9, tag=0)], True),
    ([dict(p1=1, p2=101, ns=8, tag=0)], True),
    ([dict(p1=1, p2=2, ns=9, tag=0)], False),
    ([dict(p1=101, p2=1, ns=7, tag=0), dict(p1=1, p2=2, ns=6, tag=0)], True),
    ([dict(p1=2, p2=1, ns=6, tag=0), dict(p1=1, p2=101, ns=7, tag=0)], True),
    ([dict(p1=1, p2=2, ns=7, tag=0), dict(p1=2, p2=3, ns=5, tag=0), dict(p1=2, p2=4, ns=6, tag=0)], False),
    ([dict(p1=1, p2=2, ns=6, tag=0), dict(p1=3, p2=2, ns=6, tag=0)], False),
]


def long_records(chk):
    """records of wires with many segments (for runs of equal-length segments on tapered wires)"""
    from . import topo as T
    out = []
    for ground in (True, False):
        sel = [i for i, g in LONG_INPUTS if g == ground]
        for inp, rec in zip(sel, T.spec_records(chk, sel, ground, name='long-%s' % ground)):
            out.append((rec, ground))
    return out


def build_pair(rec, rnd, ground, f, unit, radius, taper_prob=0.5, taper_max=False, vertical=False):
    """real model + specification geometry on the same seeded coordinates; with probability
       taper_prob the wires are tapered (unequal segments make first / last segment differ)"""
    lay = Layout(rec['input'], rnd, unit)
    if vertical:
        # grounded wires stand vertically (the fill treats vertical grounded wires specially)
        for o in rec['input']:
            for a, b in ((o['p1'], o['p2']), (o['p2'], o['p1'])):
                if a > 100 and b < 100:
                    lay.xyz[b] = lay.xyz[a] + np.array([0, 0, np.linalg.norm(lay.xyz[b] - lay.xyz[a])])
    tp = random.Random(rnd.random()) if rnd.random() < taper_prob else None
    try:
        m = build_real(rec, lay, ground, f, radius, taper=tp, taper_max=taper_max)
    except (AssertionError, ValueError):
        tp = None
        m = build_real(rec, lay, ground, f, radius)
    # radii per object of the specification (objects in tag order; the radius is input data)
    radii = {g.n + 1: float(g.r) for g in m.geo}
    geo = SpecGeom(rec, lay, ground, radius, segs=real_segmentation(m) if tp is not None else None, radii=radii)
    return m, geo
