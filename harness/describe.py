"""Conductor structures, their descriptions, and the physical joint currents.

A STRUCTURE is a set of undirected straight wires between named points with
segment counts (coordinates in wavelengths).  A DESCRIPTION lists directed,
possibly split pieces of these wires in some order with tags -- the input of
spec/TopologyOn.tla.  The specification's record of a description (pulse
table, J-line coefficient vectors) maps the pulse currents of that
description to PHYSICAL joint currents I_w(pos): the current along the
canonical direction of wire w at segment joint pos (0 .. ns), the same
quantity for every description of the structure.
"""
import itertools, math
import numpy as np
from mininec.mininec import Mininec, Wire, Excitation, ideal_ground

# name -> (points {name: (x, y, z) in wavelengths}, wires [(a, b, ns)], ground?)
STRUCTURES = {
    'bent2': (dict(A=(0, 0, 0.5), B=(0.18, 0, 0.5), C=(0.18, 0.10, 0.56)), [('A', 'B', 3), ('B', 'C', 2)], False),
    'star3': (dict(H=(0, 0, 0.5), A=(0.15, 0, 0.5), B=(-0.05, 0.12, 0.55), C=(-0.04, -0.06, 0.38)),
              [('H', 'A', 3), ('H', 'B', 2), ('C', 'H', 3)], False),
    'tee': (dict(A=(-0.12, 0, 0.5), B=(0, 0, 0.5), C=(0.16, 0, 0.5), D=(0, 0.02, 0.36)),
            [('A', 'B', 2), ('B', 'C', 3), ('B', 'D', 3)], False),
    'triangle': (dict(A=(0, 0, 0.5), B=(0.16, 0, 0.52), C=(0.07, 0.13, 0.6)),
                 [('A', 'B', 3), ('B', 'C', 3), ('C', 'A', 3)], False),
    'chain3': (dict(A=(0, 0, 0.4), B=(0.1, 0.02, 0.46), C=(0.1, 0.12, 0.5), D=(0.22, 0.14, 0.5)),
               [('A', 'B', 2), ('B', 'C', 2), ('C', 'D', 3)], False),
    # three wires on one point; splitting the third right next to that point makes the inherited exact-kernel
    # heuristic treat its remainder as unconnected to the second wire (recorded finding of C06)
    'hub3': (dict(P0=(0.0, 0.0, 0.5), P1=(-0.16394723650919502, -0.014377916009860395, 0.5247575701128033),
                  P2=(0.0803274660912237, -0.003934973683876981, 0.5547213521751705),
                  P3=(-0.023388367034398908, 0.010996207013328589, 0.3569739884446435)),
             [('P0', 'P1', 2), ('P2', 'P0', 4), ('P0', 'P3', 4)], False),
    # a two-segment wire (segments 0.075 wavelength) between two four-segment wires (0.026 / 0.030): at the 49 degree
    # junction P2 the inherited criterion for the exact-kernel branch is met off the axis (recorded finding of C06)
    'unequal_junction': (dict(P0=(0.0, 0.0, 0.5), P1=(0.059906455746467385, -0.08404176910612778, 0.49057772395280164),
                              P2=(-0.09717041858687177, -0.04235178172268832, 0.395132431640859),
                              P3=(-0.02688002554159105, -0.10698345814279665, 0.46819385286542325)),
                         [('P0', 'P1', 4), ('P2', 'P0', 2), ('P2', 'P3', 4)], False),
    'inv_l': (dict(G=(0, 0, 0), A=(0, 0, 0.16), B=(0.14, 0, 0.16)), [('G', 'A', 3), ('A', 'B', 3)], True),
    'sloping': (dict(G=(0, 0, 0), A=(0.08, 0, 0.14), B=(0.08, 0.12, 0.14)), [('G', 'A', 3), ('A', 'B', 2)], True),
    'two_grounded': (dict(G1=(0, 0, 0), A=(0.03, 0, 0.15), B=(0.17, 0.02, 0.15), G2=(0.2, 0.02, 0)),
                     [('G1', 'A', 3), ('A', 'B', 3), ('B', 'G2', 3)], True),
    'elevated_and_grounded': (dict(G=(0, 0, 0), A=(0, 0, 0.2), C=(0.15, -0.1, 0.12), D=(0.15, 0.1, 0.16)),
                              [('G', 'A', 4), ('C', 'D', 4)], True),
}
RADIUS = 3e-4       # wavelengths


def _seg_dist(a0, a1, b0, b1, n=7):
    ts = np.linspace(0, 1, n)
    pa = a0[None, :] + ts[:, None] * (a1 - a0)[None, :]
    pb = b0[None, :] + ts[:, None] * (b1 - b0)[None, :]
    return float(np.sqrt(((pa[:, None, :] - pb[None, :, :]) ** 2).sum(-1)).min())


def random_structure(rnd, ground):
    """a random connected tree of 2 .. 4 straight wires inside the domain of C06: junction angles >= 40 degrees,
       wires that do not share a point at least two segment lengths apart, over ground one wire standing on the
       plane (rising at 35 degrees or more), everything else at least a segment above it"""
    for _attempt in range(400):
        nw = rnd.choice([2, 3, 3, 4])
        pts = {'P0': np.array([0.0, 0.0, 0.0 if ground else 0.5])}
        wires = []
        ok = True
        for k in range(nw):
            a = rnd.choice(sorted(pts)) if k else 'P0'
            if ground and a == 'P0' and k:
                a = rnd.choice([p for p in sorted(pts) if p != 'P0'])
            length = rnd.uniform(0.08, 0.2)
            ns = rnd.choice([2, 3, 4])
            for _t in range(60):
                d = np.array([rnd.gauss(0, 1) for _ in range(3)])
                d /= np.linalg.norm(d)
                if ground and k == 0:
                    d[2] = abs(d[2])
                    if d[2] < math.sin(math.radians(35)):
                        continue
                b = pts[a] + d * length
                if ground and b[2] < 1.5 * length / ns:
                    continue
                good = True
                for (p, q, n2) in wires:
                    shares = a in (p, q)
                    if shares:
                        other = pts[q] - pts[p] if p == a else pts[p] - pts[q]
                        c = float(np.dot(other, d) / np.linalg.norm(other))
                        if c > math.cos(math.radians(40)):
                            good = False
                    else:
                        seg = max(length / ns, np.linalg.norm(pts[q] - pts[p]) / n2)
                        if _seg_dist(pts[a], b, pts[p], pts[q]) < 2.2 * seg:
                            good = False
                    # the far end must keep its distance from every other wire, too
                    if good and not shares is False and False:
                        pass
                if good:
                    # the new far end against wires sharing the start point: at least a segment away from them
                    for (p, q, n2) in wires:
                        if a in (p, q) and _seg_dist(b, b, pts[p], pts[q]) < 1.2 * length / ns:
                            good = False
                if good:
                    name = 'P%d' % len(pts)
                    pts[name] = b
                    wires.append((a, name, ns) if rnd.random() < 0.5 else (name, a, ns))
                    break
            else:
                ok = False
                break
        if ok:
            return ({k: tuple(float(x) for x in v) for k, v in pts.items()}, wires, ground)
    raise RuntimeError('no random structure found')


def add_random_structures(seed, n):
    """registers n seeded random structures (half of them over ground) in STRUCTURES; returns their names"""
    import random
    names = []
    for k in range(n):
        rnd = random.Random('c06-structure/%s/%d' % (seed, k))
        name = 'random-%s-%d' % (seed, k)
        STRUCTURES[name] = random_structure(rnd, ground=(k % 2 == 1))
        names.append(name)
    return names


def point_ids(points, ground):
    ids = {}
    nf = ng = 0
    for name, xyz in points.items():
        if ground and xyz[2] == 0:
            ng += 1
            ids[name] = 100 + ng
        else:
            nf += 1
            ids[name] = nf
    return ids


class Description:
    """pieces: list of dict(w=wire index, s=start position, n=segments, d=+1/-1, tag)"""

    def __init__(self, sname, pieces, label):
        self.sname = sname
        self.points, self.wires, self.ground = STRUCTURES[sname]
        self.pieces = pieces
        self.label = label
        self.ids = dict(point_ids(self.points, self.ground))
        self.coords = {self.ids[k]: np.array(v, float) for k, v in self.points.items()}
        self._next = max([i for i in self.ids.values() if i < 100]) + 1
        self.inp = []
        for pc in pieces:
            a, b, ns = self.wires[pc['w']]
            pa, pb = self.pos_id(pc['w'], pc['s']), self.pos_id(pc['w'], pc['s'] + pc['n'])
            if pc['d'] < 0:
                pa, pb = pb, pa
            self.inp.append(dict(p1=pa, p2=pb, ns=pc['n'], tag=pc.get('tag', 0)))

    def pos_id(self, w, pos):
        a, b, ns = self.wires[w]
        if pos == 0:
            return self.ids[a]
        if pos == ns:
            return self.ids[b]
        key = ('split', w, pos)
        if key not in self.ids:
            self.ids[key] = self._next
            ca, cb = np.array(self.points[a], float), np.array(self.points[b], float)
            self.coords[self._next] = ca + (cb - ca) * pos / ns
            self._next += 1
        return self.ids[key]

    def build(self, lam, f, media=None, radius=None):
        ws = []
        for o in self.inp:
            p1, p2 = self.coords[o['p1']] * lam, self.coords[o['p2']] * lam
            ws.append(Wire(o['ns'], *p1, *p2, (radius or RADIUS) * lam, tag=o['tag'] or None))
        if media is None:
            media = [ideal_ground] if self.ground else None
        return Mininec(f, ws, media=media)


def descriptions(sname, splits=True, max_perm=None):
    points, wires, ground = STRUCTURES[sname]
    n = len(wires)
    res = []
    perms = list(itertools.permutations(range(n)))
    for perm in perms[:max_perm]:
        for dirs in itertools.product((1, -1), repeat=n):
            pcs = [dict(w=w, s=0, n=wires[w][2], d=dirs[w]) for w in perm]
            res.append(Description(sname, pcs, 'perm%s dirs%s' % (perm, dirs)))
    # explicit tags permuting the order of the base description
    for tags in itertools.permutations(range(1, n + 1)):
        pcs = [dict(w=w, s=0, n=wires[w][2], d=1, tag=3 * tags[w]) for w in range(n)]
        res.append(Description(sname, pcs, 'tags%s' % (tags,)))
    if splits:
        for w in range(n):
            for at in range(1, wires[w][2]):
                for d1, d2 in ((1, 1), (1, -1), (-1, 1)):
                    pcs = []
                    for v in range(n):
                        if v == w:
                            pcs.append(dict(w=w, s=0, n=at, d=d1))
                            pcs.append(dict(w=w, s=at, n=wires[w][2] - at, d=d2))
                        else:
                            pcs.append(dict(w=v, s=0, n=wires[v][2], d=1))
                    res.append(Description(sname, pcs, 'split w%d@%d dirs(%d,%d)' % (w, at, d1, d2)))
    return res


def joint_maps(desc, rec):
    """{(w, pos): coefficient vector over pulses} -- physical current along the canonical
       direction of wire w at joint pos, for every joint the description determines; also the
       list of inconsistencies (two pieces giving different expressions for one joint)."""
    N = len(rec['pulses'])
    # objects of the record are in tag order; map back to pieces
    order = sorted(range(len(desc.inp)), key=lambda k: (rec_tag(rec, desc, k)))
    maps = {}
    clashes = []
    for o, k in enumerate(order):
        pc = desc.pieces[k]
        interior = [q for q, p in enumerate(rec['pulses']) if p['kind'] == 'I' and p['owner'] == o + 1]
        for j, q in enumerate(interior):
            pos = pc['s'] + (j + 1) if pc['d'] > 0 else pc['s'] + pc['n'] - (j + 1)
            v = np.zeros(N)
            v[q] = pc['d']
            put(maps, clashes, (pc['w'], pos), v)
        for e in (0, 1):
            ln = rec['lines'][o][e]
            pos = pc['s'] + (0 if (e == 0) == (pc['d'] > 0) else pc['n'])
            v = np.zeros(N)
            if ln['kind'] == 'J':
                v = np.array(ln['coef'], float) * pc['d']
            elif ln['kind'] == 'G':
                g = [q for q, p in enumerate(rec['pulses'])
                     if p['owner'] == o + 1 and p['kind'] == ('G1' if e == 0 else 'G2')]
                v[g[0]] = pc['d']
            put(maps, clashes, (pc['w'], pos), v)
    return maps, clashes


def inexact_pairs(desc, rec):
    """the set of PHYSICAL pulse pairs between which the specification says the reduced (not the exact) kernel is used
       under this description (Topology.tla ExactKernel: owners of the two pulses connected); a physical pulse is the
       pair of physical half segments (wire, segment) it joins, whatever piece and direction describe them"""
    order = sorted(range(len(desc.inp)), key=lambda k: (rec_tag(rec, desc, k)))

    def phys(o, j):
        pc = desc.pieces[order[o - 1]]
        return (pc['w'], pc['s'] + j if pc['d'] > 0 else pc['s'] + pc['n'] - j + 1)
    ident = []
    for p in rec['pulses']:
        a, b = phys(*p['sa']), phys(*p['sb'])
        ident.append(frozenset([a, b]) if p['kind'] in ('I', 'J1', 'J2') else frozenset([a, 'ground']))
    ex = rec['exact']
    n = len(ident)
    return {frozenset([ident[i], ident[j]]) for i in range(n) for j in range(n) if not ex[i][j]}, ident


def rec_tag(rec, desc, k):
    """final tag of input object k (explicit, or automatic in input order after the largest)"""
    tags = [o['tag'] for o in desc.inp]
    base = max(tags + [0])
    auto = 0
    out = []
    for t in tags:
        if t:
            out.append(t)
        else:
            auto += 1
            out.append(base + auto)
    return out[k]


def put(maps, clashes, key, v):
    if key in maps and not np.array_equal(maps[key], v):
        # junction of several wires: the end currents of different wires at one point differ
        # legitimately; only split points (one wire, interior position) must agree
        clashes.append(key)
    else:
        maps[key] = v
