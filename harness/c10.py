"""C10 -- the far field is the radiation sum of the pulse currents; dBi and V/m agree.

The pulse table of every configuration comes from spec/Topology.tla (TLC);
harness/lattice.py places the point ids on seeded lattice coordinates and
evaluates MININEC's radiation sum (current moment of each half segment at its
pulse point, image terms and the grounded-pulse rule over ground) from the
SPECIFICATION's pulse table.  The real compute_far_field, run with injected
complex currents on the same coordinates, must reproduce e_theta / e_phi
(1e-9 of the maximum) and the dBi values at arbitrary directions, powers and
distances.  Relations between the tables: gain = |E|^2 r^2 / (59.96 P) per
polarisation, total = power sum, V/m ~ sqrt(P)/r, rows 360 degrees apart
identical, zenith total independent of azimuth.
"""
import json, math, random
import numpy as np
from . import common as C
from . import topo as T
from . import lattice as L
from mininec.mininec import Angle

PID = 'C10'
INVS = ['CountFormula', 'SegJoint', 'JunctionCount']


def check_record(args):
    rec, ground, sd = args
    out = dict(mism=[], exc=None, n=0)
    N = len(rec.get('pulses', []))
    if rec.get('reject') or N == 0:
        return out
    rnd = random.Random('%s/%s' % (sd, C.h(rec['input'])))
    try:
        lam = 10.0
        f = 299.8 / lam
        unit = lam * rnd.choice([0.03, 0.05, 0.08])
        m, geo = L.build_pair(rec, rnd, ground, f, unit, 0.001)
        if len(m.pulses) != N:
            out['mism'].append(dict(what='pulse-count'))
            return out
        I = np.array([complex(rnd.uniform(-1, 1), rnd.uniform(-1, 1)) for _ in range(N)])
        m.current = I
        P = rnd.choice([1.0, 0.37, 25.0])
        m.power = P
        k = 2 * math.pi / lam
        # zenith angles are not confined to 0..180: an elevation cut across the zenith (negative angles) or past the nadir
        # names directions of the sphere as well (theta, phi) = (-theta, phi + 180)
        zen = Angle(rnd.choice([0, 7.5, 13, -60] if ground else [0, 7.5, 13, -75, 150]), rnd.choice([30, 41.5, 22.5]), 3 if ground else 5)
        azi = Angle(rnd.choice([0, 11, -40]), rnd.choice([90, 67, 120]), 4)
        pw = rnd.choice([None, 100.0, 0.02])
        dist = rnd.choice([0, 1000.0, 37.5])
        kw = {}
        if pw is not None:
            kw['pwr'] = pw
        if dist:
            kw['dist'] = dist
        m.compute_far_field(zen, azi, **kw)
        ff = m.far_field
        et = np.array(ff.e_theta)
        ep = np.array(ff.e_phi)
        zz, aa = np.array(ff.zen), np.array(ff.azi)
        fac = math.sqrt((pw or P) / P) / (dist or 1.0)
        exp_t = np.zeros(et.shape, dtype=complex)
        exp_p = np.zeros(et.shape, dtype=complex)
        for idx in np.ndindex(et.shape):
            a, b = geo.far_E(I, k, zz[idx], aa[idx])
            exp_t[idx], exp_p[idx] = a * fac, b * fac
        scale = max(np.abs(exp_t).max(), np.abs(exp_p).max(), 1e-300)
        out['n'] = int(et.size)
        # the sum of the magnitudes of the current moments: when the pattern is nothing but the rounding residue of
        # cancelling moments (coincident wires carrying opposite currents) "the pattern maximum" is no scale and dB
        # values are noise
        one = L.G0 * fac * sum(abs(I[q]) * k * sum(p['lens']) / 2 for q, p in enumerate(geo.pulses))
        if scale < 1e-9 * one:
            if max(np.abs(et).max(), np.abs(ep).max()) > 1e-9 * one:
                out['mism'].append(dict(what='cancelling-pulses-radiate', err=float(max(np.abs(et).max(), np.abs(ep).max()) / one)))
            out['cancelled'] = True
            return out
        if np.abs(et - exp_t).max() > 1e-9 * scale:
            out['mism'].append(dict(what='e_theta', err=float(np.abs(et - exp_t).max() / scale),
                                    custom_power=pw is not None))
        if np.abs(ep - exp_p).max() > 1e-9 * scale:
            out['mism'].append(dict(what='e_phi', err=float(np.abs(ep - exp_p).max() / scale),
                                    custom_power=pw is not None))
        # dBi table against the radiation sum (independent of the V/m scaling)
        g = np.array(ff.gain)              # (..., 3): vertical, horizontal, total
        raw_t, raw_p = exp_t / fac, exp_p / fac
        for name, col, val in (('vertical', 0, np.abs(raw_t) ** 2), ('horizontal', 1, np.abs(raw_p) ** 2),
                               ('total', 2, np.abs(raw_t) ** 2 + np.abs(raw_p) ** 2)):
            lin = val / (59.96 * P)
            big = lin > 1e-12
            db = 10 * np.log10(np.where(big, lin, 1.0))
            got = g[..., col]
            if got.shape != db.shape:
                got = got.T
            if np.abs(got[big] - db[big]).max(initial=0) > 1e-3:
                out['mism'].append(dict(what='dbi-' + name, err=float(np.abs(got[big] - db[big]).max()),
                                        custom_power=pw is not None))
        # relations between the two tables of the implementation itself
        rr = dist or 1.0
        for name, col, e in (('vertical', 0, et), ('horizontal', 1, ep)):
            lin = np.abs(e) ** 2 * rr ** 2 / (59.96 * (pw or P))
            big = lin > 1e-12
            got = g[..., col]
            if got.shape != lin.shape:
                got = got.T
            if np.abs(got[big] - 10 * np.log10(lin[big])).max(initial=0) > 1e-3:
                out['mism'].append(dict(what='tables-disagree-' + name, custom_power=pw is not None))
        tot = 10 ** (g[..., 0] / 10) * (g[..., 0] > -900) + 10 ** (g[..., 1] / 10) * (g[..., 1] > -900)
        big = tot > 1e-12
        if np.abs(10 * np.log10(tot[big]) - g[..., 2][big]).max(initial=0) > 1e-6:
            out['mism'].append(dict(what='total-not-power-sum'))
        # the same request objects used again with other directions (a user stepping through cuts changes .initial /
        # .inc of his Angle objects): the second table is the field of the NEW directions
        if rnd.random() < 0.5:
            zen.initial, zen.inc = zen.initial + 11.5, zen.inc * 0.5
            azi.initial, azi.inc = azi.initial - 23.0, azi.inc * 0.75
            m.compute_far_field(zen, azi, **kw)
            ff2 = m.far_field
            z2, a2 = np.array(ff2.zen), np.array(ff2.azi)
            bad2 = 0.0
            for idx in np.ndindex(np.array(ff2.e_theta).shape):
                a, b = geo.far_E(I, k, z2[idx], a2[idx])
                bad2 = max(bad2, abs(np.array(ff2.e_theta)[idx] - a * fac), abs(np.array(ff2.e_phi)[idx] - b * fac))
            out['n'] += int(np.array(ff2.e_theta).size)
            if bad2 > 1e-9 * max(scale, bad2 * 1e-3):
                out['mism'].append(dict(what='second-request-with-the-same-angle-objects', err=float(bad2 / scale)))
        # 360 degrees apart / zenith
        m.compute_far_field(Angle(0, 35, 3), Angle(17, 360, 2))
        g2 = np.array(m.far_field.gain)
        e2 = np.array(m.far_field.e_theta)
        flat = g2.reshape(-1, 3) if g2.shape[0] * g2.shape[1] == 6 else g2
        # rows with equal zenith, azimuth 17 and 377
        gz = g2 if g2.shape[0] == 3 else np.swapaxes(g2, 0, 1)
        # compared as power ratios against the strongest entry: a polarisation that is analytically absent is
        # printed as -999 or as the dB value of a rounding residue (about -300), depending on sin(17) vs sin(377)
        lz = 10 ** (np.maximum(gz, -999.0) / 10)
        if np.abs(lz[:, 0, :] - lz[:, 1, :]).max() > 1e-9 * max(lz.max(), 1e-300):
            out['mism'].append(dict(what='rows-360-apart-differ'))
        m.compute_far_field(Angle(0, 0, 1), Angle(0, 47, 7))
        g3 = np.array(m.far_field.gain).reshape(-1, 3)[:, 2]
        l3 = 10 ** (np.maximum(g3, -999.0) / 10)
        if np.abs(l3 - l3[0]).max() > 1e-9 * max(l3.max(), 1e-300):
            out['mism'].append(dict(what='zenith-depends-on-azimuth'))
        # ---- the same antenna SOLVED with two generators 90 degrees apart (one of them usually takes power
        # out of the structure): the dBi table is the radiation sum of the solved currents over the real input
        # power sum(Re(V I*) / 2), computed here from the generator voltages and the solved pulse currents
        if N >= 2 and rnd.random() < 0.3:
            solved(rec, ground, rnd, f, unit, k, out)
    except Exception as e:      # noqa
        import traceback
        out['exc'] = repr(e) + traceback.format_exc()[-600:]
    return out


def solved(rec, ground, rnd, f, unit, k, out):
    from mininec.mininec import Excitation
    # (two wires between the same two points make the system singular: such structures are not solved)
    pairs = [frozenset((o['p1'], o['p2'])) for o in rec['input']]
    if len(set(pairs)) != len(pairs):
        return
    m, geo = L.build_pair(rec, rnd, ground, f, unit, 0.001)
    N = len(m.pulses)
    a, b = rnd.sample(range(N), 2)
    volts = {a: 1 + 0j, b: complex(0, rnd.choice([1.0, -0.6]))}
    for q, v in volts.items():
        m.register_source(Excitation(v), q)
    try:
        m.compute()
    except np.linalg.LinAlgError:
        return
    I = np.array(m.current)
    if not np.isfinite(I).all() or np.linalg.cond(m.Z) > 1e7:
        return
    pin = sum(0.5 * (v * np.conj(I[q])).real for q, v in volts.items())
    parts = [0.5 * (v * np.conj(I[q])).real for q, v in volts.items()]
    if pin <= 1e-9 * sum(abs(x) for x in parts):
        return
    out['solved'] = dict(absorbing=min(parts) < 0)
    zen, azi = Angle(10, 35, 3 if ground else 5), Angle(20, 75, 4)
    m.compute_far_field(zen, azi)
    ff = m.far_field
    g = np.array(ff.gain)
    zz, aa = np.array(ff.zen), np.array(ff.azi)
    lin = np.zeros(zz.shape + (3,))
    for idx in np.ndindex(zz.shape):
        et, ep = geo.far_E(I, k, zz[idx], aa[idx])
        lin[idx] = (abs(et) ** 2, abs(ep) ** 2, abs(et) ** 2 + abs(ep) ** 2)
    lin /= 59.96 * pin
    if g.shape != lin.shape:
        g = np.swapaxes(g, 0, 1)
    big = lin > 1e-6 * lin.max()
    dev = np.abs(g[big] - 10 * np.log10(lin[big])).max(initial=0)
    if dev > 2e-3:
        out['mism'].append(dict(what='solved-gain-vs-input-power', err=float(dev), absorbing=bool(min(parts) < 0)))
    # clause 2 (solved currents): within 2 % of the pattern maximum of the exact integral over the straight half
    # segments, for segments up to 1/18 wavelength
    lam = 2 * math.pi / k
    if max(max(p['lens']) for p in geo.pulses) <= lam / 18:
        et, ep = np.array(ff.e_theta), np.array(ff.e_phi)
        if et.shape != zz.shape:
            et, ep = et.T, ep.T
        ex = np.array([geo.far_E(I, k, zz[idx], aa[idx], exact=True) for idx in np.ndindex(zz.shape)]).reshape(zz.shape + (2,))
        sc = np.abs(ex).max()
        d2 = max(np.abs(et - ex[..., 0]).max(), np.abs(ep - ex[..., 1]).max()) / sc
        out['exact_dev'] = float(d2)
        if d2 > 0.02:
            kinds = [p['kind'] for p in rec['pulses']]
            # is the reported field, for these solved currents, exactly the sum with the moments at the pulse points
            # (clause 1)?  Then the deviation from the exact integral is the distance between the two formulas.
            pp = np.array([geo.far_E(I, k, zz[idx], aa[idx]) for idx in np.ndindex(zz.shape)]).reshape(zz.shape + (2,))
            c1 = max(np.abs(et - pp[..., 0]).max(), np.abs(ep - pp[..., 1]).max()) / sc
            out['mism'].append(dict(what='exact-half-segment-integral', err=float(d2), npulses=N,
                                    cause='moments-at-the-pulse-points-as-clause-1-demands' if c1 < 1e-9 else None,
                                    junctions=sum(1 for x in kinds if x in ('J1', 'J2')),
                                    longest_segment_wavelengths=float(max(max(p['lens']) for p in geo.pulses) / lam)))


def cmdline_case(args):
    """through main(): the V/m table is the field at the REQUESTED far-field power and distance (the source power when
       none is requested) -- whatever else is asked for in the same run (near field with its own power level), and it
       satisfies |E| = sqrt(59.96 P 10^(dBi/10)) / r against the dBi table printed next to it"""
    name, base = args
    import io, contextlib
    from . import report as R
    from mininec.mininec import main
    out = dict(mism=[], exc=None)

    def run(extra):
        so, se = io.StringIO(), io.StringIO()
        with contextlib.redirect_stdout(so):
            rc = main(base + extra, f_err=se)
        if rc:
            raise RuntimeError('main returned %r: %s' % (rc, se.getvalue()[:200]))
        st = R.parse_report(so.getvalue())['steps'][0]
        return st, so.getvalue()
    try:
        both = ['--option=far-field', '--option=far-field-absolute']
        ref, _ = run(both)
        p_in = sum(b['power'] for b in ref['source_data'])
        variants = [('near-field-with-own-power', both + ['--near-field=1,2,3,1,1,1,1,1,2', '--option=near-field', '--nf-power=100'], p_in, 1.0),
                    ('near-field-without-power', both + ['--near-field=1,2,3,1,1,1,1,1,2', '--option=near-field'], p_in, 1.0),
                    ('requested-power', both + ['--ff-power=50'], 50.0, 1.0),
                    ('requested-power-and-distance', both + ['--ff-power=50', '--ff-distance=20'], 50.0, 20.0),
                    ('requested-distance', both + ['--ff-distance=20'], p_in, 20.0),
                    ('near-field-power-and-far-field-power', both + ['--near-field=1,2,3,1,1,1,1,1,2', '--option=near-field', '--nf-power=100', '--ff-power=50'], 50.0, 1.0)]
        for vname, extra, power, dist in variants:
            st, txt = run(extra)
            db = st['far_db']
            info, rows = st['far_abs']
            if len(db) != len(rows) or len(db) != len(ref['far_db']):
                out['mism'].append(dict(what='cmdline-far-field-rows', variant=vname))
                continue
            # dBi table independent of everything requested
            if max(abs(a[k] - b[k]) for a, b in zip(db, ref['far_db']) for k in (2, 3, 4) if a[k] > -200 and b[k] > -200) > 2e-3:
                out['mism'].append(dict(what='cmdline-dbi-depends-on-requests', variant=vname))
            if abs(info.get('power', power) - power) > 1e-4 * power:
                out['mism'].append(dict(what='cmdline-power-level', variant=vname, printed=info.get('power'), requested=power))
            for a, b in zip(db, rows):
                # columns: zenith, azimuth, E_theta magnitude, phase, E_phi magnitude, phase
                for gcol, ecol in ((2, 2), (3, 4)):
                    if a[gcol] < -60:
                        continue
                    want = math.sqrt(59.96 * power * 10 ** (a[gcol] / 10)) / dist
                    if abs(b[ecol] - want) > 2e-3 * want:
                        out['mism'].append(dict(what='cmdline-field-not-at-requested-power', variant=vname,
                                                printed=b[ecol], expected=want))
                        break
                else:
                    continue
                break
    except Exception as e:      # noqa
        import traceback
        out['exc'] = repr(e) + traceback.format_exc()[-500:]
    return out


CMD_BASES = [
    ('sloping-dipole-free', ['-f', '14.2', '-w', '6,-5,0,10,5,1,12,0.002', '--excitation-pulse=3', '--theta=10,35,3', '--phi=0,60,3']),
    ('inverted-l-ground', ['-f', '7.1', '--medium=0,0,0', '-w', '4,0,0,0,0,0,8,0.002', '-w', '3,0,0,8,5,2,8,0.002',
                           '--excitation-pulse=1', '--theta=10,35,3', '--phi=0,60,3']),
]


def jobs(chk, tier):
    for r, g, cfg in T.records(chk, tier, INVS):
        if not r.get('reject') and not any(o.get('kind') == 'A' for o in r['input']):
            yield (r, g, C.seed())


def run(tier):
    chk = C.Check(PID, tier, 'model_checking')
    chk.assumptions = [
        'TLC 1.8 on spec/Topology.tla supplies the pulse table (which segments each pulse joins, direction and ground signs) of every configuration',
        'the radiation sum is evaluated by harness/lattice.py from that pulse table and seeded lattice coordinates (unit 0.03-0.08 wavelength), not from Mininec.pulses',
        'currents are injected into Mininec.current (random complex), powers and distances are seeded; directions are arbitrary (not only lattice axes)']
    for (r, g, _), o in C.parallel_imap(check_record, jobs(chk, tier), chunksize=16):
        if not r.get('pulses'):
            continue
        kinds = {p['kind'] for p in r['pulses']}
        chk.case(dict(i=r['input'], g=g), len(kinds) >= 2 or len(r['input']) >= 2,
                 sample=dict(input=r['input'], ground=g, pulse_kinds=sorted(kinds)), n=max(1, o['n']))
        chk.traces += 1
        if o.get('solved'):
            chk.cov['solved_models'] = chk.cov.get('solved_models', 0) + 1
            chk.cov['solved_models_with_absorbing_generator'] = chk.cov.get('solved_models_with_absorbing_generator', 0) \
                + int(o['solved']['absorbing'])
        if o.get('exact_dev') is not None:
            chk.cov['exact_integral_cases'] = chk.cov.get('exact_integral_cases', 0) + 1
            chk.cov['exact_integral_worst_deviation'] = max(chk.cov.get('exact_integral_worst_deviation', 0.0), o['exact_dev'])
        if o.get('cancelled'):
            chk.cov['patterns_cancelled_to_rounding'] = chk.cov.get('patterns_cancelled_to_rounding', 0) + 1
        if o['exc']:
            chk.violation(dict(kind='exception', exc=o['exc'].split('(')[0]),
                          dict(input=r['input'], ground=g, exc=o['exc'], spec=r))
        for mm in o['mism']:
            chk.violation(dict(kind=mm['what'], custom_power=mm.get('custom_power'), cause=mm.get('cause')),
                          dict(input=r['input'], ground=g, info=mm, spec=r))
    for (name, base), o in zip(CMD_BASES, C.parallel_map(cmdline_case, CMD_BASES, chunksize=1)):
        chk.case('cmdline/' + name, True, sample=dict(cmdline=name), n=6)
        if o['exc']:
            chk.violation(dict(kind='exception', exc=o['exc'].split('(')[0]), dict(cmdline=name, exc=o['exc']))
        for mm in o['mism']:
            chk.violation(dict(kind=mm['what'], variant=mm.get('variant')), dict(cmdline=name, info=mm))
    return chk.finish(
        rule='one case per accepted final state of Topology.tla with at least one pulse (evaluations count compared '
             'directions); non-trivial = at least two objects or two kinds of pulses (interior / junction / ground)')


def replay(path):
    d = json.load(open(path))['detail']
    o = check_record((d['spec'], d['ground'], C.seed()))
    print(json.dumps(o, indent=1, default=str))
    return 1 if (o['mism'] or o['exc']) else 0
