"""C05 -- rigid-motion and electromagnetic-scaling invariance.
(also provides the transformation-program replay used by C13)

spec/Transform.tla (TLC) enumerates transformation programs (up to three
rotate / translate options with equal and different sort keys, tagged and
untagged, up to two scale options) and gives, per object, the sequence of
elementary maps that applies to it (invariants ScaleLast, KeyOrder, Scope).
Replay through the real main():
 (i)  option form = coordinates: the segment end points and radii of the
      transformed model equal the elementary maps (rotation about X, then Y,
      then Z; translation; scaling incl. radius) applied by the harness in the
      specification's order to the untransformed segmentation (wire, arc and
      helix objects) -- 1e-9;
 (ii) for whole-structure programs: feed impedance and pulse currents equal
      those of the untransformed antenna (with f/s for scaling by s), and the
      gain pattern moves rigidly with the antenna (free space: arbitrary
      rotations; over ideal ground: rotations about z and horizontal shifts).
"""
import io, json, math, random, contextlib
import numpy as np
from . import common as C
from mininec.mininec import main, Mininec, Angle

PID = 'C05'
ROTS = [(0, 0, 33.0), (90.0, 0, 0), (0, -71.0, 0), (33.0, -71.0, 123.0), (10.0, 20.0, 0), (0, 45.0, -30.0), (180.0, 0, 90.0)]
ZROTS = [(0, 0, 33.0), (0, 0, -120.0), (0, 0, 200.0), (0, 0, 90.0), (0, 0, -90.0), (0, 0, 180.0), (0, 0, 45.0)]
TRAS = [(1.5, -2.25, 0.75), (0, 0, 40.0), (100.0, -300.0, 7.0), (-0.3, 0, 0), (650.0, 0, 0), (-40.0, 900.0, 0.5)]
HTRAS = [(1.5, -2.25, 0), (100.0, -300.0, 0), (-0.3, 0, 0), (650.0, 0, 0), (-40.0, 900.0, 0)]
SCLS = [0.01, 0.37, 37.0, 100.0, 2.5]

GEO_BASE = ['-w', '1,5,0.3,0.2,1.0,2.1,0.4,1.6,0.002', '-a', '2,6,1.4,10,150,0.0015',
            '--helix', '3,8,1.1,0.5,0.001,0.3,0.4,0.2,0.25']
# a fat tapered wire (the 2.5 r bound of the taper is active) and a D loop (half circle closed by a wire)
GEO_BASE2 = ['-w', '1,8,0.3,0.2,3.0,1.5,0.4,3.6,0.06', '--taper-wire=1,1', '-a', '2,6,1.5,0,180,0.0015',
             '-w', '3,5,1.5,0,0,-1.5,0,0,0.001']
# (wire 4 is a parasitic element whose end stays 3 mm / 4 mm = several matching tolerances away from the free end of
#  wire 3, along x resp. y: the two must remain unconnected wherever the antenna is moved)
PHYS_FREE = ['-w', '1,4,0,0,10,3.0,0,10.6,0.002', '-w', '2,3,3.0,0,10.6,3.2,2.1,11.5,0.002',
             '-w', '3,3,0,0,10,-1.2,0.4,7.6,0.0015', '-w', '4,3,-1.203,0.4,7.6,-3.0,0.4,7.9,0.0015',
             '--excitation-pulse=2,1', '--load=30+20j', '--attach-load=1,1,2']
PHYS_GND = ['-w', '1,4,0,0,0,0.9,0,3.1,0.002', '-w', '2,3,0.9,0,3.1,3.3,0.8,3.3,0.002',
            '-w', '3,3,5,5,1.2,5.5,7.2,2.0,0.0015', '-w', '4,3,5.5,7.204,2.0,5.5,9.0,2.4,0.0015',
            '--medium=0,0,0', '--excitation-pulse=1,1', '--load=30+20j', '--attach-load=1,1,2']
# the same antenna with its grounded sloping wire on the diagonal x = y: quarter and half turns put it on the other
# diagonals and keep |dx| = |dy| exactly (sign and zero tests on direction components live there)
PHYS_GND2 = ['-w', '1,4,0,0,0,0.9,0.9,3.1,0.002', '-w', '2,3,0.9,0.9,3.1,3.3,0.8,3.3,0.002'] + PHYS_GND[4:]
F0 = 21.2


def rotm(ax, ay, az):
    a, b, c = (math.radians(x) for x in (ax, ay, az))
    rx = np.array([[1, 0, 0], [0, math.cos(a), -math.sin(a)], [0, math.sin(a), math.cos(a)]])
    ry = np.array([[math.cos(b), 0, math.sin(b)], [0, 1, 0], [-math.sin(b), 0, math.cos(b)]])
    rz = np.array([[math.cos(c), -math.sin(c), 0], [math.sin(c), math.cos(c), 0], [0, 0, 1]])
    return rz @ ry @ rx                   # rotation about X first, then Y, then Z


def run_main(argv):
    out, err = io.StringIO(), io.StringIO()
    with contextlib.redirect_stdout(out), contextlib.redirect_stderr(err):
        try:
            m = main(list(argv), f_err=err, return_mininec=True)
        except SystemExit:
            m = None
    return m, out.getvalue() + err.getvalue()


def concretise(rec, rnd, ground=False, whole=False):
    """parameters for every option id of the TLC record; returns (argv options, params by id)"""
    params = {}
    argv = []
    for o in rec['rot']:
        ang = rnd.choice(ZROTS if ground else ROTS)
        params[o['id']] = ('R', ang)
        argv.append('--geo-rotate=%d,%r,%r,%r' % ((o['key'],) + ang) + (',%d' % o['tag'] if o['tag'] else ''))
    for o in rec['tra']:
        vec = rnd.choice(HTRAS if ground else TRAS)
        params[o['id']] = ('T', vec)
        argv.append('--geo-translate=%d,%r,%r,%r' % ((o['key'],) + vec) + (',%d' % o['tag'] if o['tag'] else ''))
    for o in rec['scl']:
        s = rnd.choice(SCLS)
        params[o['id']] = ('S', s)
        argv.append('--geo-scale=%r' % s + (',%d' % o['tag'] if o['tag'] else ''))
    return argv, params


def apply_maps(pts, r, ids, params):
    pts = np.array(pts, float)
    for i in ids:
        kind, p = params[i]
        if kind == 'R':
            pts = (rotm(*p) @ pts.T).T
        elif kind == 'T':
            pts = pts + np.array(p)
        else:
            pts = pts * p
            r = r * p
    return pts, r


def seg_points(g):
    return np.array([s.p1 for s in g.segments] + [g.segments[-1].p2], float)


def geometry_check(rec, rnd, base=None):
    """(i) -- returns list of mismatches"""
    bad = []
    if base is None:
        base = rnd.choice([GEO_BASE, GEO_BASE2])
    m0, msg = run_main(base)
    argv, params = concretise(rec, rnd)
    m1, msg = run_main(base + argv)
    if not isinstance(m0, Mininec) or not isinstance(m1, Mininec):
        return [dict(what='rejected', msg=msg[:200], argv=argv)], argv
    for g0, g1 in zip(m0.geo, m1.geo):
        ids = rec['maps'][g0.tag - 1]
        exp, r = apply_maps(seg_points(g0), g0.r_orig, ids, params)
        got = seg_points(g1)
        size = max(np.abs(exp).max(), 1e-12)
        # a tapered wire is re-segmented after the transformation by an iterative algorithm: its
        # interior segment ends follow the transformation only to the accuracy of that algorithm
        tol = 1e-4 if getattr(g0, 'segtype', 0) else 1e-9
        if got.shape != exp.shape or np.abs(got - exp).max() > tol * size:
            bad.append(dict(what='segment-end-points', obj=type(g0).__name__, tag=g0.tag,
                            nrot=sum(1 for i in ids if params[i][0] == 'R'),
                            multi_axis=any(params[i][0] == 'R' and sum(1 for a in params[i][1] if a) > 1 for i in ids),
                            dev=float(np.abs(got - exp).max() / size) if got.shape == exp.shape else None))
        if abs(g1.r_orig - r) > 1e-12 * max(r, 1e-30):
            bad.append(dict(what='radius', obj=type(g0).__name__, tag=g0.tag,
                            nscales=sum(1 for i in ids if params[i][0] == 'S')))
        # lengths: rotations and translations preserve every length, scaling multiplies them
        s_tot = np.prod([params[i][1] for i in ids if params[i][0] == 'S']) if ids else 1.0
        l0 = np.array([s.seg_len for s in g0.segments])
        l1 = np.array([s.seg_len for s in g1.segments])
        if l0.shape != l1.shape or np.abs(l1 - l0 * s_tot).max() > tol * l0.max() * s_tot:
            bad.append(dict(what='segment-lengths', obj=type(g0).__name__, tag=g0.tag))
    # objects that are moved together stay joined: the D loop of the second base keeps its two
    # junction pulses when arc and closing wire get the same maps
    if base is GEO_BASE2 and rec['maps'][1] == rec['maps'][2] and len(m1.pulses) != len(m0.pulses):
        bad.append(dict(what='junctions-lost-by-transformation', base_pulses=len(m0.pulses), pulses=len(m1.pulses)))
    return bad, argv


def tol_for(cond):
    if cond <= 1e3:
        return 5e-4
    if cond <= 1e5:
        return 5e-7 * cond
    return None


def physics_check(rec, rnd, ground):
    """(ii) for whole-structure programs"""
    bad = []
    base = rnd.choice([PHYS_GND, PHYS_GND2]) if ground else PHYS_FREE
    argv, params = concretise(rec, rnd, ground=ground)
    ids = rec['maps'][0]
    s_tot = float(np.prod([params[i][1] for i in ids if params[i][0] == 'S'])) if ids else 1.0
    m0, _ = run_main(base + ['-f', repr(F0)])
    m1, msg = run_main(base + argv + ['-f', repr(F0 / s_tot)])
    if not isinstance(m1, Mininec):
        return [dict(what='rejected', msg=msg[:200])], argv
    if len(m1.pulses) != len(m0.pulses):
        return [dict(what='number-of-unknowns-changed-by-motion', base=len(m0.pulses), moved=len(m1.pulses))], argv
    m0.compute(); m1.compute()
    tol = tol_for(max(np.linalg.cond(m0.Z), np.linalg.cond(m1.Z)))
    if tol is None:
        return [dict(what='skip')], argv
    # the lumped load is frequency independent, so scaling holds with it
    z0, z1 = m0.sources[0].impedance, m1.sources[0].impedance
    if abs(z0 - z1) > tol * abs(z0):
        bad.append(dict(what='feed-impedance', dev=abs(z0 - z1) / abs(z0), scaled=s_tot != 1.0))
    if np.abs(m0.current - m1.current).max() > tol * np.abs(m0.current).max():
        bad.append(dict(what='currents', dev=float(np.abs(m0.current - m1.current).max() / np.abs(m0.current).max())))
    # pattern moves rigidly: total rotation of the program
    Rtot = np.eye(3)
    for i in ids:
        if params[i][0] == 'R':
            Rtot = rotm(*params[i][1]) @ Rtot
    dirs = [(rnd.uniform(10, 80), rnd.uniform(0, 360)) for _ in range(6)]
    for th, ph in dirs:
        t, p_ = math.radians(th), math.radians(ph)
        r = np.array([math.sin(t) * math.cos(p_), math.sin(t) * math.sin(p_), math.cos(t)])
        r1 = Rtot @ r
        th1 = math.degrees(math.acos(max(-1, min(1, r1[2]))))
        ph1 = math.degrees(math.atan2(r1[1], r1[0]))
        m0.compute_far_field(Angle(th, 0, 1), Angle(ph, 0, 1))
        m1.compute_far_field(Angle(th1, 0, 1), Angle(ph1, 0, 1))
        g0, g1 = np.array(m0.far_field.gain).flatten(), np.array(m1.far_field.gain).flatten()
        # total always; vertical / horizontal separately when the rotation is about z only
        cols = [2] if abs(Rtot[2, 2] - 1) > 1e-12 else [0, 1, 2]
        for c in cols:
            if g0[c] > -60 and abs(g0[c] - g1[c]) > 10 * math.log10(1 + 2 * tol) + 1e-6:
                bad.append(dict(what='pattern-does-not-move-rigidly', col=c, dev=float(abs(g0[c] - g1[c]))))
                break
    return bad, argv


def check_record(args):
    rec, sd, phys = args
    rnd = random.Random('%s/%s' % (sd, C.h(rec)))
    out = dict(mism=[], exc=None, argv=None, phys=False, skipped=False)
    try:
        bad, argv = geometry_check(rec, rnd)
        out['argv'] = argv
        out['mism'] += bad
        whole = all(o['tag'] == 0 for o in rec['rot'] + rec['tra'] + rec['scl'])
        if phys and whole and (rec['rot'] or rec['tra'] or rec['scl']):
            ground = rnd.random() < 0.4
            b2, argv2 = physics_check(rec, rnd, ground)
            if b2 and b2[0].get('what') == 'skip':
                out['skipped'] = True
            else:
                out['mism'] += [dict(x, ground=ground) for x in b2]
                out['phys'] = True
    except Exception as e:      # noqa
        import traceback
        out['exc'] = repr(e) + traceback.format_exc()[-600:]
    return out


def programs(chk):
    res = C.tlc('Transform', 'MC_Transform.cfg')
    if res.violated:
        chk.violation(dict(kind='spec-invariant', invariant=res.violated), dict(tail=res.out[-2000:]))
    elif not res.ok:
        raise C.Machinery('TLC failed on Transform: ' + res.out[-1500:])
    chk.add_tlc(res)
    recs = list(res.printed())
    if not recs:
        raise C.Machinery('no Transform records')
    return recs


def run(tier):
    chk = C.Check(PID, tier, 'exploration')
    chk.assumptions = [
        'TLC 1.8 on spec/Transform.tla: every program of up to three rotate / translate options (two sort keys, tagged and untagged) and up to two scale options, with the per-object sequence of elementary maps',
        'angles (single- and multi-axis), translations (up to many wavelengths) and scale factors (0.01 .. 100) are seeded choices of the harness; the elementary maps are applied by the harness with its own rotation matrices (X, then Y, then Z)',
        'physics invariance is checked for whole-structure programs on a bent three-wire antenna with a lumped load (free space, and ideal ground with z-rotations / horizontal shifts); tolerance of the property with the condition-number rule']
    recs = programs(chk)
    rnd = C.rng('c05')
    frac = 0.08 if tier == 'quick' else 0.5
    psel = 0.5 if tier == 'quick' else 1.0
    jobs = []
    for r in recs:
        whole = all(o['tag'] == 0 for o in r['rot'] + r['tra'] + r['scl'])
        if whole or C.pick(r, frac, 'c05-geo'):
            jobs.append((r, C.seed(), whole and C.pick(r, psel, 'c05-phys')))
    for (r, _, ph), o in C.parallel_imap(check_record, jobs, chunksize=8):
        nops = len(r['rot']) + len(r['tra']) + len(r['scl'])
        chk.case(dict(r=r), nops >= 2, sample=dict(options=o['argv'], maps=r['maps']))
        chk.traces += 1
        if o['phys']:
            chk.cov['solved_programs'] = chk.cov.get('solved_programs', 0) + 1
        if o['skipped']:
            chk.skip('condition number above 1e5')
        if o['exc']:
            chk.violation(dict(kind='exception', exc=o['exc'].split('(')[0]), dict(program=r, exc=o['exc']))
        for mm in o['mism']:
            chk.violation(dict(kind=mm['what'], obj=mm.get('obj'), multi_axis=mm.get('multi_axis'),
                               nscales_ge2=(mm.get('nscales') or 0) >= 2),
                          dict(program=r, argv=o['argv'], info=mm))
    return chk.finish(
        rule='one case per transformation program of Transform.tla (all whole-structure programs, a seeded fraction of the '
             'tagged ones); non-trivial = at least two options; whole-structure programs are additionally solved')


def replay(path):
    d = json.load(open(path))['detail']
    o = check_record((d['program'], C.seed(), True))
    print(json.dumps(o, indent=1, default=str))
    return 1 if (o['mism'] or o['exc']) else 0
