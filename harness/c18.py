"""C18 -- the generated BASIC-MININEC input describes the same antenna.

Every generated answer file is validated as a trace of spec/BasicDialogue.tla
(batched TLC run: each line must answer the prompt that is due; nothing may
be left over).  TLC prints the prompt sequence of accepted files; the harness
decodes the answers with it and compares the decoded model with the real one:
frequency, environment and media, every (emulated) wire, sources (pulse,
magnitude, phase in degrees), loads (pulse and value, uH/uF scaling for
version 9).  A model rebuilt from the decoded answers must have the same
pulse numbering and feed impedance; wire ends the program joined must be
printed with identical coordinates (BASIC matches end points exactly).
The 48 stored .mini files guard the automaton itself.
"""
import os, re, io, glob, json, math, random, contextlib, types
import numpy as np
from . import common as C
from mininec.mininec import (main, Mininec, Wire, Arc, Helix, Excitation, Medium, ideal_ground,
                             Impedance_Load, Laplace_Load, Series_RLC_Load, Trap_Load,
                             Skin_Effect_Load, Insulation_Load, Angle)

PID = 'C18'
INT = re.compile(r'^[+-]?\d+$')


def tokenise(text):
    lines = text.split('\n')
    while lines and lines[-1] == '':
        lines.pop()
    res = []
    for ln in lines:
        t = ln.strip().upper()
        fields = [x.strip() for x in ln.split(',')]
        nf = 0
        try:
            [float(x) for x in fields]
            nf = len(fields)
        except ValueError:
            nf = 0
        iv = [int(x) if INT.match(x) else -1 for x in fields[:2]] + [-1, -1]
        res.append(dict(t=t, nf=nf, i1=iv[0], i2=iv[1]))
    return lines, res


def validate(chk, files, name='c18'):
    """files: list of answer-file texts -> list of (accepted, matched, nlines, ps or None)"""
    toks = []
    raw = []
    for txt in files:
        lines, tk = tokenise(txt)
        raw.append(lines)
        toks.append(tk)
    wd = C.workdir('trace-' + name)
    tf = os.path.join(wd, 'files.json')
    json.dump(toks, open(tf, 'w'))
    cfg = os.path.join(wd, 'Trace.cfg')
    open(cfg, 'w').write('INIT Init\nNEXT Next\nCONSTRAINT Track\nPOSTCONDITION Post\n'
                         'INVARIANT CountersInRange\nCHECK_DEADLOCK FALSE\n')
    res = C.tlc('BasicDialogue', os.path.relpath(cfg, C.SPEC), name='trace-run-' + name, workers=1,
                env=dict(TRACE_FILE=tf), timeout=1200)
    if res.violated:
        raise C.Machinery('BasicDialogue invariant %s violated' % res.violated)
    chk.add_tlc(res)
    matched = {}
    ps = {}
    for line in open(res.path):
        m = re.match(r'^<<"TV", (\d+), (\d+), (\d+)>>', line)
        if m:
            matched[int(m.group(1))] = (int(m.group(2)), int(m.group(3)))
        elif line.startswith('"{'):
            try:
                d = json.loads(json.loads(line))
                ps[d['tid']] = d['ps']
            except Exception:
                pass
    if len(matched) != len(files):
        raise C.Machinery('dialogue validation: %d verdicts for %d files: %s'
                          % (len(matched), len(files), res.out[-1500:]))
    out = []
    for t in range(1, len(files) + 1):
        mt, ex = matched[t]
        out.append(dict(accepted=t in ps, matched=mt - 1, nlines=ex - 1, ps=ps.get(t), lines=raw[t - 1]))
    return out


def decode(ps, lines):
    """prompt sequence + raw lines -> decoded model"""
    d = dict(freq=None, env=None, media=[], boundary=1, nradials=0, radial_radius=None, wires=[],
             sources=[], loads=[], sparam=None, menu=[])
    cur = None
    nums = lambda s: [float(x) for x in s.split(',')]
    for p, ln in zip(ps, lines):
        if p == 'freq':
            d['freq'] = float(ln)
        elif p == 'env':
            d['env'] = int(ln)
        elif p == 'nmedia':
            d['nmedia'] = int(ln)
        elif p == 'boundary':
            d['boundary'] = int(ln)
        elif p == 'eps_sig':
            e, s = nums(ln)
            d['media'].append(dict(eps=e, sig=s, height=0.0, coord=None))
        elif p == 'nradials':
            d['nradials'] = int(ln)
        elif p == 'radial_radius':
            d['radial_radius'] = float(ln)
        elif p == 'height':
            d['media'][-1]['height'] = float(ln)
        elif p == 'coord':
            d['media'][-1]['coord'] = float(ln)
        elif p == 'nseg':
            cur = dict(nseg=int(ln), raw=[])
            d['wires'].append(cur)
        elif p == 'end1':
            cur['p1'] = nums(ln)
            cur['raw'].append(ln.replace(' ', ''))
        elif p == 'end2':
            cur['p2'] = nums(ln)
            cur['raw'].append(ln.replace(' ', ''))
        elif p == 'radius':
            cur['r'] = float(ln)
        elif p == 'source':
            a = nums(ln)
            d['sources'].append(dict(pulse=int(a[0]), mag=a[1], phase=a[2]))
        elif p == 'sparam':
            d['sparam'] = ln.strip().upper()
        elif p == 'load':
            a = nums(ln)
            d['loads'].append(dict(pulse=int(a[0]), z=complex(a[1], a[2])))
        elif p == 'load_order':
            a = nums(ln)
            d['loads'].append(dict(pulse=int(a[0]), order=int(a[1]), b=[], a=[]))
        elif p == 'coef':
            a = nums(ln)
            d['loads'][-1]['b'].append(a[0])
            d['loads'][-1]['a'].append(a[1])
        elif p in ('menu', 'dbi_or_vm', 'e_or_h', 'zenith', 'azimuth', 'nf_axis', 'ff_power', 'nf_power',
                   'distance', 'ff_change_power', 'nf_change_power'):
            d['menu'].append((p, ln.strip()))
    return d


def rel(a, b, tol):
    return abs(a - b) <= tol * max(abs(a), abs(b), 1e-30)


def compare(m, d, version, info):
    """decoded answers d against the real model m -> list of mismatches"""
    bad = []
    if not rel(d['freq'], m.f, 1e-11):
        bad.append('frequency')
    if (d['env'] == -1) != bool(m.media):
        bad.append('environment')
    if m.media:
        ideal = len(m.media) == 1 and m.media[0].is_ideal
        if ideal:
            if d.get('nmedia') != 0:
                bad.append('media-count')
        else:
            if d.get('nmedia') != len(m.media) or len(d['media']) != len(m.media):
                bad.append('media-count')
            else:
                for k, (md, dm) in enumerate(zip(m.media, d['media'])):
                    if not (rel(dm['eps'], md.permittivity, 2e-6) and rel(dm['sig'], md.conductivity, 2e-6)):
                        bad.append('media-constants')
                    if k > 0 and not rel(dm['height'], md.height, 2e-6):
                        bad.append('media-height')
                    if k < len(m.media) - 1 and (dm['coord'] is None or not rel(dm['coord'], md.coord, 2e-6)):
                        bad.append('media-coord')
                if len(m.media) > 1 and (d['boundary'] == 2) != (m.media[0].boundary == 'circular'):
                    bad.append('media-boundary')
                if d['nradials'] != m.media[0].nradials:
                    bad.append('radial-count')
                if m.media[0].nradials and not rel(d['radial_radius'] or 0, m.media[0].radius, 2e-6):
                    bad.append('radial-radius')
    # wires: every segment of an emulated object is a one-segment wire
    exp = []
    for g in m.geo:
        if g.n_emulated_wires == 1:
            exp.append((g.n_segments, g.segments[0].p1, g.segments[-1].p2, g.r))
        else:
            for s in g.segments:
                exp.append((1, s.p1, s.p2, g.r))
    if len(exp) != len(d['wires']):
        bad.append('wire-count')
    else:
        tol = 1e-3 * m.min_seglen
        for (n, p1, p2, r), w in zip(exp, d['wires']):
            if n != w['nseg']:
                bad.append('wire-segments')
            if np.linalg.norm(np.array(w['p1']) - p1) > tol or np.linalg.norm(np.array(w['p2']) - p2) > tol:
                bad.append('wire-endpoints')
            if not rel(w['r'], r, 1e-7):
                bad.append('wire-radius')
        # ends the program joined must be printed identically (BASIC compares exactly)
        ends = []
        for w in d['wires']:
            ends.append((np.array(w['p1']), w['raw'][0]))
            ends.append((np.array(w['p2']), w['raw'][1]))
        for i in range(len(ends)):
            for j in range(i + 1, len(ends)):
                if ends[i][1] != ends[j][1] and np.linalg.norm(ends[i][0] - ends[j][0]) <= tol:
                    if [float(x) for x in ends[i][1].split(',')] != [float(x) for x in ends[j][1].split(',')]:
                        bad.append('joined-ends-printed-differently')
    # sources
    if len(d['sources']) != len(m.sources):
        bad.append('source-count')
    else:
        for s, ds in zip(m.sources, d['sources']):
            if ds['pulse'] != s.idx + 1:
                bad.append('source-pulse')
            v = ds['mag'] * np.exp(1j * math.radians(ds['phase']))
            if abs(v - s.voltage) > 2e-5 * abs(s.voltage):
                bad.append('source-voltage')
    # loads
    expl = []
    for l in m.loads:
        for p in l.pulses:
            expl.append((p.idx + 1, l, p))
    if len(expl) != len(d['loads']):
        bad.append('load-count')
    else:
        scale = 1e6 if version == '9' else 1.0
        for (pn, l, p), dl in zip(expl, d['loads']):
            if dl['pulse'] != pn:
                bad.append('load-pulse')
            if 'z' in dl:
                z = l.impedance(m.f, p)
                if abs(z - dl['z']) > 2e-5 * max(abs(z), 1e-30):
                    bad.append('load-value')
            else:
                if dl['order'] != l.degree:
                    bad.append('load-order')
                else:
                    for k in range(l.degree + 1):
                        f = scale ** k
                        if not (rel(dl['b'][k], l.b[k] * f, 2e-5) and rel(dl['a'][k], l.a[k] * f, 2e-5)):
                            bad.append('load-coefficients')
    return sorted(set(bad))


def rebuild(d, version):
    """a model from the decoded answers, as MININEC would read them"""
    ws = [Wire(w['nseg'], *w['p1'], *w['p2'], w['r']) for w in d['wires']]
    media = None
    if d['env'] == -1:
        if d.get('nmedia', 0) == 0:
            media = [ideal_ground]
        else:
            media = []
            for k, dm in enumerate(d['media']):
                kw = dict(height=dm['height'])
                if dm['coord'] is not None:
                    kw['coord'] = dm['coord']
                kw['boundary'] = 'circular' if d['boundary'] == 2 else 'linear'
                if k == 0 and d['nradials']:
                    kw.update(nradials=d['nradials'], radius=d['radial_radius'])
                media.append(Medium(dm['eps'], dm['sig'], **kw))
    m = Mininec(d['freq'], ws, media=media)
    for s in d['sources']:
        m.register_source(Excitation(s['mag'], s['phase']), s['pulse'] - 1)
    scale = 1e-6 if version == '9' else 1.0
    for l in d['loads']:
        if 'z' in l:
            m.register_load(Impedance_Load(l['z']), l['pulse'] - 1)
        else:
            a = [x * scale ** k for k, x in enumerate(l['a'])]
            b = [x * scale ** k for k, x in enumerate(l['b'])]
            m.register_load(Laplace_Load(a=a, b=b), l['pulse'] - 1)
    return m


# ------------------------------------------------------------ model generator

def gen_models(rnd, n):
    """seeded list of (name, argv, as_basic_input kwargs, version)"""
    res = []
    volt = ['1', '2', '0.5+0.5j', '-1+2j', '-0.3-0.7j', '3-0.4j', '2.236j', '-5']
    for i in range(n):
        fam = rnd.choice(['dipole', 'invl', 'tee', 'taper', 'arc', 'helix', 'fuzzy-arc', 'fuzzy-arc2', 'fuzzy-taper', 'fuzzy-helix', 'media', 'oneseg'])
        argv = ['-f', rnd.choice(['7.15', '14.2', '3.65', '28.4'])]
        ground = False
        if fam == 'dipole':
            argv += ['-w', '%d,0,0,10,%g,0,10,0.001' % (rnd.choice([4, 7, 10]), rnd.choice([8, 10.5, 20]))]
        elif fam == 'invl':
            ground = True
            argv += ['-w', '4,0,0,0,0,0,8,0.002', '-w', '3,0,0,8,6,0,8,0.0015']
        elif fam == 'tee':
            argv += ['-w', '3,0,0,5,0,0,10,0.001', '-w', '2,0,0,10,-4,0,10,0.001', '-w', '2,0,0,10,4,0.5,10,0.001']
        elif fam == 'taper':
            argv += ['-w', '8,0,0,10,12,0,10,0.001', '-w', '4,12,0,10,12,5,10,0.001',
                     '--taper-wire=1,%d' % rnd.choice([1, 2, 3])]
        elif fam == 'arc':
            argv += ['-a', '5,2.5,0,180,0.001', '-w', '4,2.5,0,0,-2.5,0,0,0.001', '--geo-translate=1,0,0,12']
        elif fam == 'fuzzy-arc':
            # the wire ends are within the matching tolerance of the arc ends, not identical
            argv += ['-w', '4,2.50001,0,0.00001,7,0,3,0.001', '-a', '5,2.5,0,180,0.001',
                     '--geo-translate=1,0,0,12']
        elif fam == 'fuzzy-arc2':
            # the emulated object comes later (tag 2) and its FIRST end is matched fuzzily
            argv += ['-w', '1,4,7,0,3,2.50001,0,0.00001,0.001', '-a', '2,5,2.5,0,180,0.001',
                     '--geo-translate=1,0,0,12']
        elif fam == 'fuzzy-taper':
            argv += ['-w', '4,0,0,10,5,0,10,0.001', '-w', '6,5.00001,0.00001,10,5,6,10,0.001',
                     '--taper-wire=2,%d' % rnd.choice([1, 2, 3])]
        elif fam == 'fuzzy-helix':
            argv += ['-w', '1,3,3,0,0,0.30001,0.00001,0,0.001', '--helix', '2,9,1.2,0.6,0.001,0.3,0.3',
                     '--geo-translate=1,0,0,15']
        elif fam == 'helix':
            argv += ['--helix', '9,1.2,0.6,0.001,0.3,0.3', '-w', '3,0.3,0,0,3,0,0,0.001',
                     '--geo-translate=1,0,0,15']
        elif fam == 'oneseg':
            argv += ['-w', '1,0,0,10,1,0,10,0.001', '-w', '5,1,0,10,6,0,10,0.001', '-w', '1,6,0,10,6,1,10,0.001']
        elif fam == 'media':
            ground = True
            argv += ['-w', '5,0,0,0,0,0,12,0.0015']
        if ground:
            med = rnd.choice(['ideal', 'one', 'two-lin', 'two-circ', 'two-circ-rad', 'three-circ-rad'])
            if med == 'ideal':
                argv += ['--medium=0,0,0']
            elif med == 'one':
                argv += ['--medium=13,0.005,0']
            elif med == 'two-lin':
                argv += ['--medium=13,0.005,0,20', '--medium=5,0.001,-2']
            elif med == 'two-circ':
                argv += ['--medium=13,0.005,0,20', '--medium=5,0.001,-2', '--boundary=circular']
            elif med == 'two-circ-rad':
                argv += ['--medium=13,0.005,0,20', '--medium=5,0.001,-2', '--boundary=circular',
                         '--radial-count=16', '--radial-radius=0.001']
            else:
                argv += ['--medium=13,0.005,0,20', '--medium=5,0.001,-2,45', '--medium=80,4,-3',
                         '--radial-count=8', '--radial-radius=0.002']
        # sources
        ns = rnd.choice([1, 1, 2, 3])
        for k in range(ns):
            argv += ['--excitation-pulse=%d' % (k + 1), '--excitation-voltage=' + rnd.choice(volt)]
        # loads: impedance-type or Laplace-type (BASIC allows only one family)
        lk = rnd.choice(['none', 'z', 'z', 'lap', 'skin', 'ins', 'skin1'])
        if lk == 'z':
            argv += ['--load=%d%+dj' % (rnd.randint(1, 90), rnd.randint(-40, 40)), '--attach-load=1,%d' % rnd.choice([1, 2, 3])]
            if rnd.random() < 0.5:
                argv += ['--load=7+1j', '--attach-load=2,all']
        elif lk == 'lap':
            argv += ['--laplace-load-a=1,%de-9' % rnd.randint(1, 9), '--laplace-load-b=%d,2e-7,1e-16' % rnd.randint(0, 5),
                     '--attach-load=1,2']
            if rnd.random() < 0.5:
                argv += ['--rlc-load=%d,%de-6,%de-12' % (rnd.randint(1, 9), rnd.randint(1, 9), rnd.randint(10, 99)),
                         '--attach-load=2,1', '--trap-load=2,3e-6,40e-12', '--attach-load=3,3']
        elif lk == 'skin':
            argv += ['--skin-effect-conductivity=%de6' % rnd.randint(1, 60)]
        elif lk == 'skin1':
            argv += ['--skin-effect-resistivity=2.8e-8,1']
        elif lk == 'ins':
            argv += ['--insulation-load=0.004,%g' % rnd.choice([2.3, 3.5])]
        version = rnd.choice(['9', '12', '13'])
        argv += ['--mininec-version=' + version]
        kw = {}
        c = rnd.random()
        if c < 0.35:
            kw = dict(azi=Angle(0, 90, 2), zen=Angle(0, 30, 4))
        elif c < 0.6:
            kw = dict(azi=Angle(0, 90, 2), zen=Angle(0, 30, 4), ff_abs=True, ff_dist=1000.0,
                      pwr_ff=rnd.choice([None, 100.0]), gainfile=rnd.choice([None, 'GAIN.OUT']))
        elif c < 0.85:
            kw = dict(near=(1, 2, 3, 1, 1, 1, 2, 1, 2), pwr_nf=rnd.choice([None, 50.0]),
                      azi=Angle(0, 90, 2), zen=Angle(0, 30, 4))
        res.append((fam + '/' + lk, argv, kw, version))
    return res


def build(argv):
    out, err = io.StringIO(), io.StringIO()
    with contextlib.redirect_stdout(out), contextlib.redirect_stderr(err):
        try:
            m = main(list(argv), f_err=err, return_mininec=True)
        except SystemExit:
            m = None
    return m, out.getvalue() + err.getvalue()


def run(tier):
    chk = C.Check(PID, tier, 'model_checking')
    chk.assumptions = [
        'the prompt dialogue of BASIC MININEC-3 is taken from the prompt comments in as_basic_input and the 48 stored .mini files (the BASIC program itself is not available); it is the trusted base of this check',
        'TLC 1.8 validates every answer file as a trace of spec/BasicDialogue.tla in one batched run and prints the prompt sequence of accepted files',
        'model families and option values come from a seeded generator (harness/c18.py); every family is well inside what BASIC can express']
    # (0) the stored .mini files must be accepted (guards the automaton)
    stored = sorted(glob.glob(os.path.join(C.REPO, 'test', '*.mini')))
    texts = [open(f).read() for f in stored]
    ver = validate(chk, texts, 'c18-stored')
    for f, v in zip(stored, ver):
        if not v['accepted']:
            raise C.Machinery('stored file %s rejected by BasicDialogue at line %d of %d'
                              % (f, v['matched'] + 1, v['nlines']))
    chk.cov['stored_mini_files_accepted'] = len(stored)
    # (1) generated models
    rnd = C.rng('c18')
    n = 800 if tier == 'quick' else 6000
    gens = gen_models(rnd, n)
    models = []
    files = []
    for name, argv, kw, version in gens:
        m, msg = build(argv)
        if not isinstance(m, Mininec):
            raise C.Machinery('generated command line rejected: %s %s' % (argv, msg[:200]))
        args = types.SimpleNamespace(mininec_version=version)
        try:
            txt = m.as_basic_input(args, **kw)
        except Exception as e:       # noqa
            chk.violation(dict(kind='exception', exc=type(e).__name__, family=name),
                          dict(argv=argv, exc=repr(e)))
            continue
        models.append((name, argv, kw, version, m))
        files.append(txt)
    ver = validate(chk, files, 'c18-gen')
    for (name, argv, kw, version, m), v in zip(models, ver):
        fam, lk = name.split('/')
        nontriv = len(m.sources) > 1 or lk != 'none' or fam not in ('dipole',)
        chk.case(dict(a=argv, k=str(sorted(kw))), nontriv,
                 sample=dict(family=name, argv=argv, version=version, lines=v['lines'][:12]))
        chk.traces += 1
        detail = dict(argv=argv, kw=str(kw), version=version, answers=v['lines'])
        if not v['accepted']:
            ln = v['lines'][v['matched']] if v['matched'] < len(v['lines']) else '<end of file>'
            chk.violation(dict(kind='answer-does-not-match-prompt', family=fam, loads=lk,
                               empty_line=(ln == '')),
                          dict(detail, rejected_at=v['matched'] + 1, line=ln))
            continue
        d = decode(v['ps'], v['lines'])
        for b in compare(m, d, version, name):
            chk.violation(dict(kind=b, family=fam, loads=lk), dict(detail, decoded=str(d)[:1500]))
        # menu part: requested sub-dialogues present
        menu = [x[1] for x in d['menu'] if x[0] == 'menu']
        want = ['C'] + (['P'] if kw.get('azi') is not None else []) + (['N', 'N'] if kw.get('near') else []) + ['Q']
        if menu != want:
            chk.violation(dict(kind='menu-commands', family=fam), dict(detail, menu=menu, want=want))
        # rebuilt model: same pulse numbering and feed impedance
        try:
            m2 = rebuild(d, version)
            if len(m2.pulses) != len(m.pulses) or \
                    not np.allclose([p.point for p in m2.pulses], [p.point for p in m.pulses],
                                    atol=1e-3 * m.min_seglen):
                chk.violation(dict(kind='rebuilt-pulse-numbering', family=fam), dict(detail))
            elif lk in ('none', 'z', 'lap', 'ins', 'skin', 'skin1'):
                m.compute(); m2.compute()
                z1 = np.array([s.impedance for s in m.sources])
                z2 = np.array([s.impedance for s in m2.sources])
                tol = 5e-4 if fam in ('dipole', 'invl', 'tee', 'media', 'oneseg') else 2e-2
                if not np.allclose(z1, z2, rtol=tol):
                    chk.violation(dict(kind='rebuilt-feed-impedance', family=fam, loads=lk),
                                  dict(detail, z1=str(z1), z2=str(z2)))
        except np.linalg.LinAlgError:
            chk.skip('singular')
        except ValueError as e:
            chk.violation(dict(kind='rebuilt-model-rejected', family=fam), dict(detail, exc=repr(e)))
    # (2) binding self-check: a corrupted file must be rejected
    if files:
        bad = files[0].split('\n')
        bad.insert(5, '')
        v = validate(chk, ['\n'.join(bad)], 'c18-selftest')[0]
        if v['accepted']:
            raise C.Machinery('BasicDialogue accepted a file with an inserted empty line')
    return chk.finish(
        rule='one case per generated model and sub-dialogue selection; non-trivial = several sources, a load, or a '
             'non-trivial geometry family (junctions, emulation of taper / arc / helix, ground media); distinct by hash of the command line')


def replay(path):
    d = json.load(open(path))['detail']
    print(json.dumps({k: d[k] for k in d if k != 'decoded'}, indent=1, default=str)[:3000])
    return 1
