"""C04 -- the near field equals the field of the pulse currents and charges, and merges into the far field
(structural sub-statement under a surrogate kernel + far-zone relations; NOT the 1 % accuracy of the kernel
integration).

(A) exact: with Mininec.psi replaced in the harness process by the line integral of R^2 (see c02 / lattice.py)
    the real compute_near_field, run with injected complex currents, must reproduce the closed-form E and H of
    the pulse currents and their charges (with image currents over ground) evaluated by harness/lattice.py on the
    pulse table of spec/Topology.tla (TLC): straight, bent and branched structures, junctions end-1/end-1 and
    end-2/end-2, unequal (tapered) segment lengths at junctions, wires grounded at either end, power scaling.
(B) relations with the true kernel on solved antennas: at 1000 wavelengths the transverse near field equals the
    reported far-field-absolute value for the same direction, power and distance (2.5 % of the pattern maximum:
    the residual does not shrink with distance, it is the discretisation error of lambda/12 .. lambda/20 segments),
    |E|/|H| = 376.7 ohm (0.5 %), radial components below 3 % of |E|; fields scale with sqrt(power).
"""
import json, math, random
import numpy as np
from . import common as C
from . import topo as T
from . import lattice as L
from . import models as M
from mininec.mininec import Mininec, Wire, Excitation, Angle, ideal_ground

PID = 'C04'
INVS = ['CountFormula', 'SegJoint', 'JunctionCount']
ORIG_PSI = Mininec.psi


def check_record(args):
    rec, ground, sd = args
    out = dict(mism=[], exc=None, n=0)
    N = len(rec.get('pulses', []))
    pairs = [frozenset((o['p1'], o['p2'])) for o in rec.get('input', [])]
    if rec.get('reject') or N == 0 or len(set(pairs)) != len(pairs):
        return out          # (wires lying on top of each other have no defined field)
    rnd = random.Random('%s/%s' % (sd, C.h(rec['input'])))
    try:
        Mininec.psi = L.psi_surrogate
        lam = 10.0
        f = 299.8 / lam
        unit = lam * rnd.choice([0.03, 0.05, 0.08])
        m, geo = L.build_pair(rec, rnd, ground, f, unit, lam * 3e-4)
        if len(m.pulses) != N:
            out['mism'].append(dict(what='pulse-count'))
            return out
        I = np.array([complex(rnd.uniform(-1, 1), rnd.uniform(-1, 1)) for _ in range(N)])
        m.current = I
        m.power = rnd.choice([1.0, 0.25, 40.0])
        pw = rnd.choice([None, 100.0])
        fac = math.sqrt((pw or m.power) / m.power)
        k = 2 * math.pi / lam
        kinds = [p['kind'] for p in rec['pulses']]
        # two observation points computed in ONE call (a grid of two points along a seeded axis): per-point state must
        # not leak from one point into the next
        r0 = np.array([rnd.uniform(-3, 7), rnd.uniform(-3, 7), rnd.uniform(0.5, 8)]) * unit
        axis = rnd.randrange(3)
        inc = [0.0, 0.0, 0.0]
        inc[axis] = rnd.choice([1.7, 2.9]) * unit
        nvec = [1, 1, 1]
        nvec[axis] = 2
        m.compute_near_field(tuple(r0), tuple(inc), tuple(nvec), **({'pwr': pw} if pw else {}))
        coords = np.array(m.near_field_coord).T
        grid = [(np.array(coords[j], float), np.array(m.e_field[j]), np.array(m.h_field[j])) for j in range(2)]
        if not np.allclose(coords[1] - coords[0], inc, rtol=1e-9, atol=1e-12):
            out['mism'].append(dict(what='near-field-grid-points'))
        for r, e, h in grid:
            E, H = geo.surrogate_fields(I, k, m.m, r)
            E, H = E * fac, H * fac
            out['n'] += 2
            # reference magnitudes before cancellation: sum of the single-pulse contributions
            refE = refH = 0.0
            for q in range(N):
                Iq = np.zeros(N, dtype=complex)
                Iq[q] = I[q]
                Eq, Hq = geo.surrogate_fields(Iq, k, m.m, r)
                refE += np.abs(Eq).max() * fac
                refH += np.abs(Hq).max() * fac
            de = np.abs(e - E).max() / max(refE, 1e-300)
            dh = np.abs(h - H).max() / max(refH, 1e-300)
            if de > 1e-9 or dh > 1e-9:
                out['mism'].append(dict(what='near-field-assembly', dE=float(de), dH=float(dh),
                                        has_junction=any(x in ('J1', 'J2') for x in kinds),
                                        has_ground_pulse=any(x in ('G1', 'G2') for x in kinds),
                                        custom_power=pw is not None))
                break
    except Exception as e:      # noqa
        import traceback
        out['exc'] = repr(e) + traceback.format_exc()[-600:]
    finally:
        Mininec.psi = ORIG_PSI
    return out


# ------------------------------------------------------------ (C) the 1 % clause itself, true kernel

def true_case(args):
    """near field of injected pulse currents against the fields of these currents and their charges evaluated with the
       TRUE kernel by numerical integration on the geometry of the specification's pulse table, at points at least
       one segment length from every conductor and image; 1 % of the field magnitude"""
    rec, ground, sd, k_ = args
    out = dict(mism=[], exc=None, n=0, maxdev=0.0)
    N = len(rec.get('pulses', []))
    pairs = [frozenset((o['p1'], o['p2'])) for o in rec.get('input', [])]
    if rec.get('reject') or N == 0 or len(set(pairs)) != len(pairs):
        return out
    rnd = random.Random('%s/true/%s/%s' % (sd, C.h(rec['input']), k_))
    try:
        lam = 10.0
        f = 299.8 / lam
        unit = lam * rnd.choice([0.03, 0.05, 0.08])
        radius = lam * rnd.choice([3e-5, 3e-4])
        m, geo = L.build_pair(rec, rnd, ground, f, unit, radius)
        if len(m.pulses) != N:
            out['mism'].append(dict(what='pulse-count'))
            return out
        I = np.array([complex(rnd.uniform(-1, 1), rnd.uniform(-1, 1)) for _ in range(N)])
        m.current = I
        m.power = rnd.choice([1.0, 0.25, 40.0])
        pw = rnd.choice([None, 100.0])
        fac = math.sqrt((pw or m.power) / m.power)
        k = 2 * math.pi / lam
        kinds = [p['kind'] for p in rec['pulses']]
        tries = 0
        while out['n'] < 3 and tries < 40:
            tries += 1
            r = np.array([rnd.uniform(-3, 7), rnd.uniform(-3, 7), rnd.uniform(0.2, 8)]) * unit
            cl = geo.clearance(r)
            if cl < 1.0 or (out['n'] == 0 and cl > 3.0 and tries < 25):
                continue                    # the first point close to the structure (1 .. 3 segment lengths)
            m.compute_near_field(tuple(r), (1, 1, 1), (1, 1, 1), **({'pwr': pw} if pw else {}))
            e, h = np.array(m.e_field[0]), np.array(m.h_field[0])
            E, H = geo.true_fields(I, k, m.m, r, 1e-4 * lam)
            E, H = E * fac, H * fac
            out['n'] += 1
            de = np.linalg.norm(e - E) / np.linalg.norm(E)
            dh = np.linalg.norm(h - H) / np.linalg.norm(H)
            out['maxdev'] = max(out['maxdev'], de, dh)
            if de > 1e-2 or dh > 1e-2:
                # an isolated spike?  The program takes E from potentials at points 0.001 wavelength apart and picks the
                # order of the Gauss rule (8 / 4 / 2 points) per segment from the distance: where a threshold falls between
                # two of these points the two potentials carry different quadrature errors and their difference a
                # spurious term.  The true field is smooth: if the deviation at six points 0.005 wavelength around r
                # is small, the deviation at r is such a spike (recorded finding), else the field is wrong there.
                nb = []
                for ax in range(3):
                    for sg_ in (-1, 1):
                        r2 = np.array(r, float)
                        r2[ax] += sg_ * 0.005 * lam
                        m.compute_near_field(tuple(r2), (1, 1, 1), (1, 1, 1), **({'pwr': pw} if pw else {}))
                        e2, h2 = np.array(m.e_field[0]), np.array(m.h_field[0])
                        E2, H2 = geo.true_fields(I, k, m.m, r2, 1e-4 * lam)
                        nb.append(max(np.linalg.norm(e2 - E2 * fac) / np.linalg.norm(E2 * fac),
                                      np.linalg.norm(h2 - H2 * fac) / np.linalg.norm(H2 * fac)))
                spike = sorted(nb)[3] < 2e-3 and sorted(nb)[3] < 0.25 * max(de, dh) and max(de, dh) < 0.1
                out['mism'].append(dict(what='near-field-true-kernel', dE=float(de), dH=float(dh), clearance=float(cl),
                                        cause='isolated-spike-at-a-quadrature-order-threshold' if spike else None,
                                        neighbours=[float(x) for x in nb],
                                        has_junction=any(x in ('J1', 'J2') for x in kinds),
                                        has_ground_pulse=any(x in ('G1', 'G2') for x in kinds)))
                break
    except Exception as e:      # noqa
        import traceback
        out['exc'] = repr(e) + traceback.format_exc()[-600:]
    return out


# ------------------------------------------------------------ (B) far-zone relations, true kernel

def farzone_models():
    res = []
    res.append(('dipole', lambda: M.plain_two_sources(14.2)))
    res.append(('vee', lambda: M.vee_skin_ins(14.2)))
    res.append(('inv_l', lambda: M.inv_l_lumped(7.1)))

    def bent():
        ws = [Wire(4, 0, 0, 8, 3.1, 0, 8, 0.001), Wire(3, 3.1, 0, 8, 3.1, 2.2, 9.5, 0.001),
              Wire(2, 3.1, 2.2, 9.5, 1.0, 3.0, 11.0, 0.0015)]
        m = Mininec(21.2, ws)
        m.register_source(Excitation(1 + 0j), 1)
        return m
    res.append(('bent-chain', bent))

    def star():
        ws = [Wire(3, 0, 0, 10, 2.5, 0, 10, 0.001), Wire(2, 0, 0, 10, 0, 2.0, 11, 0.001),
              Wire(4, -3, 0.5, 9, 0, 0, 10, 0.001)]
        m = Mininec(18.1, ws)
        m.register_source(Excitation(1 + 0.5j), 0)
        return m
    res.append(('star-end1-end1', star))

    def slope():
        ws = [Wire(4, 0, 0, 0, 2, 0, 5, 0.001), Wire(3, 2, 0, 5, 5, 1, 5, 0.001), Wire(3, 5, 1, 5, 6, 1, 0, 0.001)]
        m = Mininec(10.1, ws, media=[ideal_ground])
        m.register_source(Excitation(1 + 0j), 0)
        return m
    res.append(('sloping-grounded-both-ends', slope))
    return res


def farzone(args):
    name, idx, sd = args
    out = dict(mism=[], exc=None, name=name)
    try:
        Mininec.psi = ORIG_PSI
        m = dict(farzone_models())[name]()
        # the object has a history: an earlier frequency with its own near field (results must
        # not depend on it)
        f_target = m.f
        m.f = 0.7 * f_target
        m.compute()
        m.compute_near_field((1.0, 2.0, 30.0), (1, 1, 1), (1, 1, 1))
        m.f = f_target
        m.compute()
        lam = m.wavelen
        R = 1000 * lam
        rnd = random.Random('%s/%s' % (sd, name))
        ground = m.media is not None
        dirs = [(rnd.uniform(15, 80), rnd.uniform(0, 360)) for _ in range(5)] + [(60, 0), (45, 90)]
        pw = rnd.choice([None, 250.0])
        # pattern maximum over a coarse grid
        m.compute_far_field(Angle(0, 15, 7 if ground else 13), Angle(0, 30, 12), dist=R, **({'pwr': pw} if pw else {}))
        emax = max(np.abs(m.far_field.e_theta).max(), np.abs(m.far_field.e_phi).max())
        segl = [float(np.linalg.norm(np.array(sg.p2, float) - np.array(sg.p1, float))) for g_ in m.geo for sg in g_.segments]
        kd = 2 * math.pi / lam * max(segl)
        pfac = math.sqrt(pw / m.power) if pw else 1.0
        disc = (kd ** 2 / 24) * m.m * (2 * math.pi / lam) ** 2 * pfac * (2 if ground else 1) * \
            sum(abs(c) for c in m.current) * max(segl) / R
        for th, ph in dirs:
            t, p_ = math.radians(th), math.radians(ph)
            rhat = np.array([math.sin(t) * math.cos(p_), math.sin(t) * math.sin(p_), math.cos(t)])
            that = np.array([math.cos(t) * math.cos(p_), math.cos(t) * math.sin(p_), -math.sin(t)])
            phat = np.array([-math.sin(p_), math.cos(p_), 0.0])
            m.compute_far_field(Angle(th, 0, 1), Angle(ph, 0, 1), dist=R, **({'pwr': pw} if pw else {}))
            et, ep = m.far_field.e_theta.flat[0], m.far_field.e_phi.flat[0]
            m.compute_near_field(tuple(R * rhat), (1, 1, 1), (1, 1, 1), **({'pwr': pw} if pw else {}))
            e, h = np.array(m.e_field[0]), np.array(m.h_field[0])
            # the far field carries the phase exp(-jkR) implicitly: compare magnitudes of the components
            # and their relative phase
            ph_ref = np.exp(-1j * 2 * math.pi / lam * R)
            nt, np_ = np.dot(e, that), np.dot(e, phat)
            d = max(abs(nt - et * ph_ref), abs(np_ - ep * ph_ref)) / emax
            if d > 2.5e-2:
                out['mism'].append(dict(what='near-field-does-not-merge-into-far-field', err=float(d),
                                        theta=th, phi=ph, custom_power=pw is not None))
            en = np.linalg.norm(e)
            hn = np.linalg.norm(h)
            if en > 0.05 * emax:
                # the pulse model itself (piecewise constant current, piecewise constant charge shifted by half a
                # segment) has a radial E component that does not decay: per pulse  w |A . rhat| (1 - sinc(k d cos(psi) / 2))
                # <= w |A| (k d)^2 / 24  (d = segment length, psi = angle between wire and direction); the code reproduces
                # it exactly (verified against the true-kernel oracle to 1e-5).  Transversality is therefore demanded up
                # to this discretisation term, bounded with the currents of the model; H = curl A has no such term.
                allow = 3e-2 * en + disc
                if abs(np.dot(e, rhat)) > allow or abs(np.dot(h, rhat)) > 3e-2 * hn:
                    out['mism'].append(dict(what='far-zone-field-not-transverse',
                                            er=float(abs(np.dot(e, rhat)) / en)))
                if abs(en / hn - 376.7) > 0.005 * 376.7:
                    out['mism'].append(dict(what='E/H-not-376.7', ratio=float(en / hn)))
        # fields scale with sqrt(power)
        pt = (0.3 * lam, 0.4 * lam, 0.8 * lam)
        m.compute_near_field(pt, (1, 1, 1), (1, 1, 1))
        e1 = np.array(m.e_field[0]); h1 = np.array(m.h_field[0])
        m.compute_near_field(pt, (1, 1, 1), (1, 1, 1), pwr=9 * m.power)
        e2 = np.array(m.e_field[0]); h2 = np.array(m.h_field[0])
        if not (np.allclose(e2, 3 * e1, rtol=1e-9) and np.allclose(h2, 3 * h1, rtol=1e-9)):
            out['mism'].append(dict(what='power-scaling'))
    except Exception as e:      # noqa
        import traceback
        out['exc'] = repr(e) + traceback.format_exc()[-600:]
    return out


def jobs(chk, tier):
    for r, g, cfg in T.records(chk, tier, INVS):
        if not r.get('reject') and not any(o.get('kind') == 'A' for o in r['input']):
            yield (r, g, C.seed())


def run(tier):
    chk = C.Check(PID, tier, 'model_checking')
    chk.assumptions = [
        'part (C) decides the 1 % clause with the true kernel: fields of injected pulse currents and their charges integrated numerically (40-point Gauss-Legendre per straight piece) on the geometry of the SPECIFICATION pulse table, at points 1 .. 40 segment lengths from the nearest conductor or image; part (A) replaces Mininec.psi by a polynomial surrogate kernel in the harness process (calling contract honoured) and checks the assembly on every configuration to rounding, part (B) uses the true kernel on solved antennas',
        'TLC 1.8 on spec/Topology.tla supplies the pulse table; closed-form E / H under the surrogate kernel are evaluated by harness/lattice.py on seeded lattice coordinates, with tapered (unequal) segments in half of the cases',
        'part (B): six solved antennas (straight, bent, branched end-1/end-1, grounded at both ends with sloping wires, lumped and distributed loads) at 1000 wavelengths, 7 directions each']
    for (r, g, _), o in C.parallel_imap(check_record, jobs(chk, tier), chunksize=16):
        if not r.get('pulses'):
            continue
        kinds = {p['kind'] for p in r['pulses']}
        chk.case(dict(i=r['input'], g=g), bool(kinds & {'J1', 'J2', 'G1', 'G2'}),
                 sample=dict(input=r['input'], ground=g, pulse_kinds=sorted(kinds)), n=max(1, o['n']))
        chk.traces += 1
        if o['exc']:
            chk.violation(dict(kind='exception', exc=o['exc'].split('(')[0]),
                          dict(input=r['input'], ground=g, exc=o['exc'], spec=r))
        for mm in o['mism']:
            chk.violation(dict(kind=mm['what'], has_junction=mm.get('has_junction'),
                               has_ground_pulse=mm.get('has_ground_pulse')),
                          dict(input=r['input'], ground=g, info=mm, spec=r))
    # (C) true kernel: the many-segment records and a seeded sample of the TLC configurations
    rnd = C.rng('c04-true')
    tj = [(r, g, C.seed(), k_) for r, g in L.long_records(chk) for k_ in range(4 if tier == 'quick' else 25)]
    frac = 0.03 if tier == 'quick' else 0.01
    for r, g, cfg in T.records(chk, 'quick', INVS):
        if not r.get('reject') and not any(o.get('kind') == 'A' for o in r['input']) and \
                int(C.h([C.seed(), 'c04-true', r['input'], g]), 16) % 10000 < frac * 10000:
            tj.append((r, g, C.seed(), 0))
    # the configuration on which the recorded spike was found (fixed seed: the finding stays visible in every run)
    sentinel = T.spec_records(chk, [[dict(p1=1, p2=101, ns=2, tag=1), dict(p1=101, p2=2, ns=3, tag=0)]], True, name='c04-sentinel')[0]
    tj.append((sentinel, True, 1, 0))
    worst = 0.0
    npts = 0
    for j, o in zip(tj, C.parallel_map(true_case, tj, chunksize=4)):
        if not o['n'] and not o['mism'] and not o['exc']:
            continue
        chk.case(dict(true=j[0]['input'], g=j[1], k=j[3]), True,
                 sample=dict(true_kernel=True, input=j[0]['input'], ground=j[1], points=o['n'], max_deviation=o['maxdev']), n=max(1, o['n']))
        worst = max(worst, o['maxdev'])
        npts += o['n']
        if o['exc']:
            chk.violation(dict(kind='exception', exc=o['exc'].split('(')[0]), dict(input=j[0]['input'], ground=j[1], exc=o['exc']))
        for mm in o['mism']:
            chk.violation(dict(kind=mm['what'], has_junction=mm.get('has_junction'), has_ground_pulse=mm.get('has_ground_pulse'),
                               cause=mm.get('cause')),
                          dict(input=j[0]['input'], ground=j[1], info=mm, spec=j[0]))
    chk.cov['true_kernel_points_compared'] = npts
    chk.cov['true_kernel_worst_deviation'] = worst
    names = [n for n, _ in farzone_models()]
    reps = 1 if tier == 'quick' else 4
    fj = [(n, k, C.seed() + k) for n in names for k in range(reps)]
    for (n, k, _), o in zip(fj, C.parallel_map(farzone, fj, chunksize=1)):
        chk.case('farzone/%s/%d' % (n, k), True, sample=dict(farzone_model=n), n=7)
        if o['exc']:
            chk.violation(dict(kind='exception', exc=o['exc'].split('(')[0], model=n), dict(model=n, exc=o['exc']))
        for mm in o['mism']:
            chk.violation(dict(kind=mm['what'], model=n), dict(model=n, info=mm))
    return chk.finish(
        rule='(A) one case per accepted final state of Topology.tla with at least one pulse, two observation points each; '
             'non-trivial = the structure has a junction or ground pulse; (B) one case per solved far-zone model and seed')


def replay(path):
    d = json.load(open(path))['detail']
    if 'spec' in d:
        o = check_record((d['spec'], d['ground'], C.seed()))
    else:
        o = farzone((d['model'], 0, C.seed()))
    print(json.dumps(o, indent=1, default=str))
    return 1 if (o['mism'] or o['exc']) else 0
