"""C16 -- field tables contain exactly the requested sample points.

TLC enumerates (start, step, count) per axis in scaled integers with
spec/Grid.tla (ExactCount, OnLattice, AllOnce, Order) and dumps the expected
point list of every case; the real compute_near_field / compute_far_field
and the text of the report must show exactly these points in this order.
"""
import io, json, contextlib
import numpy as np
from . import common as C
from . import report as R
from mininec.mininec import Mininec, Wire, Excitation, Angle, main

PID = 'C16'
_m = None


def model():
    global _m
    if _m is None:
        m = Mininec(7.0, [Wire(3, 0, 0, -2.0, 0.3, 0.2, 2.5, 0.001)])
        m.register_source(Excitation(1 + 0j), 0)
        m.compute()
        _m = m
    return _m


_o = None
_zen = _azi = None


def other():
    global _o
    if _o is None:
        m = Mininec(14.0, [Wire(2, 1, 1, 1, 2, 2, 3, 0.001)])
        m.register_source(Excitation(1 + 0j), 0)
        m.compute()
        _o = m
    return _o


def close(a, b):
    return abs(a - b) <= 1e-9 * max(1.0, abs(a), abs(b))


def expected_points(ax):
    n1, n2, n3 = (a['n'] for a in ax)
    pts = []
    for q in range(n1 * n2 * n3):
        idx = (q % n1, (q // n1) % n2, q // (n1 * n2))
        pts.append(tuple((ax[j]['s'] + idx[j] * ax[j]['d']) / 1000.0 for j in range(3)))
    return pts


def fmt_close(printed, value):
    """printed coordinate (7 significant digits, 9 characters) against value"""
    return abs(printed - value) <= 5e-6 * max(abs(value), 1e-3) + 1e-6


def check_record(args):
    rec, use_main = args
    ax = rec['ax']
    out = dict(mism=[], exc=None, npts=0)
    try:
        m = model()
        start = [a['s'] / 1000.0 for a in ax]
        inc = [a['d'] / 1000.0 for a in ax]
        cnt = [a['n'] for a in ax]
        exp = expected_points(ax)
        if rec['n'] != len(exp) or (rec['pts'] and [tuple(x / 1000.0 for x in p) for p in rec['pts']] != exp) \
                or (exp and tuple(x / 1000.0 for x in rec['last']) != exp[-1]):
            raise C.Machinery('harness and Grid.tla disagree on the expected points')
        # ---------------- near field (API)
        m.compute_near_field(start, inc, cnt)
        # another model of the same process computes another grid in between: results belong to the object
        other().compute_near_field((0.5, 0.5, 9.0), (1.0, 1.0, 1.0), (2, 1, 1))
        got = np.array(m.near_field_coord).T
        out['npts'] = len(exp)
        if got.shape != (len(exp), 3):
            out['mism'].append(dict(what='nf-count', got=int(got.shape[0]), want=len(exp)))
        else:
            bad = [q for q in range(len(exp)) if not all(close(got[q][j], exp[q][j]) for j in range(3))]
            if bad:
                out['mism'].append(dict(what='nf-values-or-order', first_bad=bad[0],
                                        got=[float(x) for x in got[bad[0]]], want=exp[bad[0]]))
        if len(m.e_field) != len(exp) or len(m.h_field) != len(exp):
            out['mism'].append(dict(what='nf-field-count', e=len(m.e_field), h=len(m.h_field), want=len(exp)))
        txt = m.near_field_as_mininec()
        blocks = R.split_blocks(txt)
        eb = [R.parse_near_block(l, 'V/M') for t, l in blocks if t == 'NEAR ELECTRIC FIELDS']
        hb = [R.parse_near_block(l, 'AMPS/M') for t, l in blocks if t == 'NEAR MAGNETIC FIELDS']
        for nm, bl in (('E', eb), ('H', hb)):
            if len(bl) != len(exp):
                out['mism'].append(dict(what='nf-report-count', field=nm, got=len(bl), want=len(exp)))
            else:
                bad = [q for q in range(len(exp))
                       if not all(fmt_close(bl[q]['point'][j], exp[q][j]) for j in range(3))]
                if bad:
                    out['mism'].append(dict(what='nf-report-points', field=nm, first_bad=bad[0],
                                            got=bl[bad[0]]['point'], want=exp[bad[0]]))
        # the same object asked again for a grid that differs by a hair (a fine scan): the points are those of
        # the NEW request
        ax_ = max(range(3), key=lambda j: cnt[j])
        st2 = list(start)
        st2[ax_] = start[ax_] + 4e-9 + 4e-6 * abs(start[ax_])
        m.compute_near_field(st2, inc, cnt)
        got2 = np.array(m.near_field_coord).T
        exp2 = [tuple(p[j] + (st2[j] - start[j]) for j in range(3)) for p in exp]
        if got2.shape != (len(exp2), 3) or any(not close(got2[q][ax_], exp2[q][ax_]) for q in range(len(exp2))):
            out['mism'].append(dict(what='nf-second-request-keeps-first-grid', axis=ax_, shift=st2[ax_] - start[ax_]))
        # ---------------- far field (API): axis 1 = zenith, axis 2 = azimuth
        if C.pick(ax, 0.5, 'c16-angle-reuse'):
            # the same Angle objects as in earlier requests, given new values (a user refining a sweep)
            global _zen, _azi
            if _zen is None:
                _zen, _azi = Angle(1.0, 2.0, 3), Angle(4.0, 5.0, 2)
                m.compute_far_field(_zen, _azi)
            zen, azi = _zen, _azi
            zen.initial, zen.inc, zen.number = start[0], inc[0], cnt[0]
            azi.initial, azi.inc, azi.number = start[1], inc[1], cnt[1]
        else:
            zen = Angle(start[0], inc[0], cnt[0])
            azi = Angle(start[1], inc[1], cnt[1])
        m.compute_far_field(zen, azi)
        ff = m.far_field
        zz = np.array(ff.zen).flatten()
        aa = np.array(ff.azi).flatten()
        expf = [(start[0] + (q % cnt[0]) * inc[0], start[1] + (q // cnt[0]) * inc[1])
                for q in range(cnt[0] * cnt[1])]
        if len(zz) != len(expf) or len(aa) != len(expf) or ff.gain.shape[:2] != (cnt[0], cnt[1]) \
                and ff.gain.shape[:2] != (cnt[1], cnt[0]):
            out['mism'].append(dict(what='ff-count', got=int(len(zz)), want=len(expf)))
        else:
            bad = [q for q in range(len(expf)) if not (close(zz[q], expf[q][0]) and close(aa[q], expf[q][1]))]
            if bad:
                out['mism'].append(dict(what='ff-angles-or-order', first_bad=bad[0]))
        rows = R.parse_pattern_db(ff.db_as_mininec().split('\n'))
        if len(rows) != len(expf):
            out['mism'].append(dict(what='ff-rows', got=len(rows), want=len(expf)))
        else:
            bad = [q for q in range(len(expf))
                   if not (fmt_close(rows[q][0], expf[q][0]) and fmt_close(rows[q][1], expf[q][1]))]
            if bad:
                out['mism'].append(dict(what='ff-row-angles', first_bad=bad[0], got=rows[bad[0]][:2],
                                        want=expf[bad[0]]))
        rows = R.parse_pattern_abs(ff.abs_gain_as_mininec().split('\n'))[1]
        if len(rows) != len(expf):
            out['mism'].append(dict(what='ff-abs-rows', got=len(rows), want=len(expf)))
        # ---------------- through the command line
        # (the command line refuses an increment of 0 with a count above 1 -- a diagnostic, C20 -- the API takes it)
        if use_main and not any(a['d'] == 0 and a['n'] > 1 for a in ax):
            argv = ['-w', '3,0,0,-2,0.3,0.2,2.5,0.001', '--excitation-pulse=1', '-f', '7',
                    '--near-field=' + ','.join('%.10g' % x for x in start + inc) + ',' +
                    ','.join(str(c) for c in cnt),
                    '--theta=%.10g,%.10g,%d' % (start[0], inc[0], cnt[0]),
                    '--phi=%.10g,%.10g,%d' % (start[1], inc[1], cnt[1]),
                    '--option=near-field', '--option=far-field']
            so, se = io.StringIO(), io.StringIO()
            with contextlib.redirect_stdout(so):
                rc = main(argv, f_err=se)
            if rc:
                out['mism'].append(dict(what='main-rejected', msg=se.getvalue()[:200]))
            else:
                rep = R.parse_report(so.getvalue())
                st = rep['steps'][0]
                if len(st['near_e']) != len(exp) or len(st['near_h']) != len(exp):
                    out['mism'].append(dict(what='main-nf-count', e=len(st['near_e']), want=len(exp)))
                if len(st['far_db'] or []) != len(expf):
                    out['mism'].append(dict(what='main-ff-rows', got=len(st['far_db'] or []), want=len(expf)))
    except C.Machinery:
        raise
    except R.ReportError as e:
        out['mism'].append(dict(what='report-grammar', msg=str(e)))
    except Exception as e:      # noqa
        import traceback
        out['exc'] = repr(e) + traceback.format_exc()[-400:]
    return out


def run(tier):
    chk = C.Check(PID, tier, 'model_checking')
    chk.assumptions = [
        'TLC 1.8 on spec/Grid.tla (MC_Grid): starts, steps (including 0.1, 0.05, 0.7, 0.3, 0.001, 0.333 and negative ones) and all counts up to MaxN on one axis; small three-axis products for the order',
        'scaled integers (unit 1/1000) in the spec are divided by 1000.0 in the harness; values compared to 1e-9 relative, printed coordinates to their 7 digits']
    cfg = 'MC_Grid_quick.cfg' if tier == 'quick' else 'MC_Grid_thorough.cfg'
    res = C.tlc('MC_Grid', cfg)
    chk.add_tlc(res)
    if res.violated:
        chk.violation(dict(kind='spec-invariant', invariant=res.violated), dict(tail=res.out[-2000:]))
    elif not res.ok:
        raise C.Machinery('TLC failed on Grid: ' + res.out[-1500:])
    rnd = C.rng('c16')
    jobs = ((r, C.pick(r['ax'], 0.05 if tier == 'quick' else 0.15, 'c16-main')) for r in res.printed())
    nrec = 0
    for (rec, um), o in C.parallel_imap(check_record, jobs, chunksize=16):
        nrec += 1
        ax = rec['ax']
        nontriv = rec['n'] >= 2
        chk.case(dict(ax=ax), nontriv, sample=dict(axes=ax, mode=rec['mode'], points=rec['n'],
                                                   first=rec['first'], last=rec['last']))
        chk.traces += 1
        swept = [a for a in ax if a['n'] > 1]
        if o['exc']:
            chk.violation(dict(kind='exception', exc=o['exc'].split('(')[0],
                               zero_step=any(a['d'] == 0 for a in ax)),
                          dict(axes=ax, exc=o['exc'], spec=rec))
        for mm in o['mism']:
            chk.violation(dict(kind=mm['what'], negative_step=any(a['d'] < 0 for a in swept)),
                          dict(axes=ax, info=mm, spec=rec))
    if nrec == 0:
        raise C.Machinery('no Grid records')
    return chk.finish(
        rule='one case per final state of Grid.tla (an axis triple); non-trivial = at least two points; every case '
             'checks the near-field coordinate array, field lists and report blocks and, with axes 1/2 read as '
             'zenith/azimuth, the far-field angle arrays and both tables; a sampled fraction additionally goes through main',
        exhaustive=True)


def replay(path):
    d = json.load(open(path))['detail']
    o = check_record((d['spec'], True))
    print(json.dumps(o, indent=1, default=str))
    return 1 if (o['mism'] or o['exc']) else 0
