"""Parser for the MININEC-style report produced by Mininec.as_mininec().

Pure text -> structure; used as the projection "what the report says".
Raises ReportError on text that is not a report of the expected grammar.
"""
import re


class ReportError(Exception):
    pass


_num = r'[-+]?(?:\d+\.?\d*|\.\d+)(?:[eE][-+]?\d+)?'
NUM = re.compile(_num)


def fl(s):
    s = s.strip()
    try:
        return float(s)
    except ValueError:
        raise ReportError('not a number: %r' % s)


STARS = re.compile(r'^\*{20}(.{20})\*{20}$')


def split_blocks(text):
    """Split into (title, lines) blocks at the 20-star headings; the part
       before the first heading is titled 'HEAD'."""
    blocks = [['HEAD', []]]
    for line in text.split('\n'):
        m = STARS.match(line.rstrip())
        if m:
            blocks.append([m.group(1).strip(), []])
        elif (line.startswith('FREQUENCY (MHZ):') and blocks[-1][0] != 'HEAD'):
            blocks.append(['FREQ', [line]])
        elif (line.strip().startswith('WAVE LENGTH =') and blocks[-1][0] == 'FREQ'):
            blocks[-1][1].append(line)
        else:
            blocks[-1][1].append(line)
    return blocks


def parse_head(lines):
    """frequency-independent part: environment, wires, geometry, sources,
       loads (and FREQUENCY when present)"""
    r = dict(freq=None, wavelen=None, env=None, nmedia=None, media_lines=[],
             nobj=None, wires=[], geometry=[], sources=[], nsources=None,
             nloads=None, loads=[], boundary=None)
    i = 0
    n = len(lines)
    state = 'top'
    cur = None
    while i < n:
        line = lines[i]
        s = line.strip()
        i += 1
        if not s:
            continue
        if s.startswith('FREQUENCY (MHZ):'):
            r['freq'] = fl(s.split(':', 1)[1])
        elif s.startswith('WAVE LENGTH ='):
            r['wavelen'] = fl(s.split('=')[1].replace('METERS', ''))
        elif s.startswith('ENVIRONMENT'):
            r['env'] = int(s.split(':')[1])
        elif s.startswith('NUMBER OF MEDIA'):
            r['nmedia'] = int(s.split(':')[1])
        elif s.startswith('TYPE OF BOUNDARY'):
            r['boundary'] = int(s.split(':')[1])
        elif (s.startswith('RELATIVE DIELECTRIC') or
              s.startswith('NUMBER OF RADIAL') or s.startswith('RADIUS OF RADIAL')
              or s.startswith('X OR R COORDINATE') or s.startswith('HEIGHT OF MEDIA')):
            r['media_lines'].append(s)
        elif s.startswith('NO. OF GEO-OBJECTS:'):
            r['nobj'] = int(s.split(':')[1])
            state = 'wires'
        elif s.startswith('**** ANTENNA GEOMETRY ****'):
            state = 'geom'
        elif s.startswith('NO. OF SOURCES'):
            r['nsources'] = int(s.split(':')[1])
            state = 'src'
        elif s.startswith('NUMBER OF LOADS'):
            r['nloads'] = int(s[len('NUMBER OF LOADS'):])
            state = 'loads'
        elif state == 'wires':
            m = re.match(r'^(WIRE|ARC|HELIX) NO\. (-?\d+)$', s)
            if m:
                # two header lines, two data lines
                if i + 3 >= n:
                    raise ReportError('truncated wire block')
                l1 = lines[i + 2].split()
                l2 = lines[i + 3].split()
                if len(l1) != 4 or len(l2) != 6:
                    raise ReportError('wire block rows: %r / %r' % (l1, l2))
                r['wires'].append(dict(
                    kind=m.group(1), tag=int(m.group(2)),
                    p1=[fl(x) for x in l1[:3]], conn1=int(l1[3]),
                    p2=[fl(x) for x in l2[:3]], radius=fl(l2[3]),
                    conn2=int(l2[4]), nseg=int(l2[5])))
                i += 4
            else:
                raise ReportError('unexpected line in wire part: %r' % s)
        elif state == 'geom':
            m = re.match(r'^(WIRE|ARC|HELIX) NO\.\s+(-?\d+)\s+COORDINATES\s+CONNECTION PULSE$', s)
            if m:
                cur = dict(kind=m.group(1), tag=int(m.group(2)), rows=[],
                           empty=False)
                r['geometry'].append(cur)
                i += 1          # column header
                continue
            if cur is None:
                raise ReportError('geometry row outside block: %r' % s)
            t = s.split()
            if len(t) == 7 and t[0] == '-':
                cur['empty'] = True
                continue
            if len(t) != 7:
                raise ReportError('geometry row: %r' % s)
            cur['rows'].append(dict(point=[fl(x) for x in t[:3]], radius=fl(t[3]),
                                    end1=int(t[4]), end2=int(t[5]), no=int(t[6])))
        elif state == 'src':
            m = re.match(r'^PULSE NO\., VOLTAGE MAGNITUDE, PHASE \(DEGREES\):\s*(.*)$', s)
            if not m:
                raise ReportError('source line: %r' % s)
            t = [x.strip() for x in m.group(1).split(',')]
            if len(t) != 3:
                raise ReportError('source line fields: %r' % s)
            r['sources'].append(dict(pulse=int(t[0]), mag=fl(t[1]), phase=fl(t[2])))
        elif state == 'loads':
            m = re.match(r'^PULSE NO\.,RESISTANCE,REACTANCE:\s*(.*)$', s)
            if m:
                t = [x.strip() for x in m.group(1).split(',')]
                if len(t) != 3:
                    raise ReportError('load line fields: %r' % s)
                r['loads'].append(dict(kind='Z', pulse=int(t[0]), r=fl(t[1]), x=fl(t[2])))
                continue
            m = re.match(r'^PULSE NO\., ORDER OF S-PARAMETER FUNCTION:\s*(\d+)\s*,\s*(\d+)$', s)
            if m:
                r['loads'].append(dict(kind='S', pulse=int(m.group(1)),
                                       order=int(m.group(2)), coef=[]))
                continue
            m = re.match(r'^NUMERATOR, DENOMINATOR COEFFICIENTS OF S\^(\d+) :\s*(\S+)\s*,\s*(\S+)$', s)
            if m and r['loads'] and r['loads'][-1]['kind'] == 'S':
                r['loads'][-1]['coef'].append((int(m.group(1)), fl(m.group(2)), fl(m.group(3))))
                continue
            raise ReportError('unexpected line in loads part: %r' % s)
        elif state == 'top':
            if ('MINI-NUMERICAL' in s or s == 'MININEC' or set(s) == {'*'}):
                continue
            raise ReportError('unexpected line in header: %r' % s)
    return r


def parse_source_data(lines):
    res = []
    cur = None
    for line in lines:
        s = line.strip()
        if not s:
            continue
        m = re.match(r'^PULSE\s+(\d+)\s+VOLTAGE = \(\s*(\S+)\s*,\s*(\S+)\s*J\)$', s)
        if m:
            cur = dict(pulse=int(m.group(1)), v=complex(fl(m.group(2)), fl(m.group(3))))
            res.append(cur)
            continue
        m = re.match(r'^(CURRENT|IMPEDANCE) = \(\s*(\S+)\s*,\s*(\S+)\s*J\)$', s)
        if m and cur is not None:
            cur[m.group(1).lower()] = complex(fl(m.group(2)), fl(m.group(3)))
            continue
        m = re.match(r'^POWER =\s*(\S+)\s+WATTS$', s)
        if m and cur is not None:
            cur['power'] = fl(m.group(1))
            continue
        if s.startswith('FREQUENCY') or s.startswith('WAVE LENGTH'):
            continue
        raise ReportError('source data line: %r' % s)
    for c in res:
        for k in ('current', 'impedance', 'power'):
            if k not in c:
                raise ReportError('source data block incomplete: %r' % c)
    return res


def parse_current_data(lines):
    """-> list of blocks dict(kind, tag, lines=[('J'|'E'|int, re, im, mag, ph)])"""
    res = []
    cur = None
    i = 0
    while i < len(lines):
        s = lines[i].strip()
        i += 1
        if not s:
            continue
        m = re.match(r'^(WIRE|ARC|HELIX) NO\.\s+(-?\d+) :$', s)
        if m:
            cur = dict(kind=m.group(1), tag=int(m.group(2)), lines=[])
            res.append(cur)
            i += 2
            continue
        if cur is None:
            raise ReportError('current row outside block: %r' % s)
        t = s.split()
        if len(t) != 5:
            raise ReportError('current row: %r' % s)
        key = t[0] if t[0] in ('J', 'E') else int(t[0])
        cur['lines'].append((key,) + tuple(fl(x) for x in t[1:]))
    return res


def parse_pattern_db(lines):
    rows = []
    for line in lines:
        s = line.strip()
        if not s or s.startswith('ZENITH') or s.startswith('ANGLE'):
            continue
        t = s.split()
        if len(t) != 5:
            raise ReportError('pattern row: %r' % s)
        rows.append(tuple(fl(x) for x in t))
    return rows


def parse_pattern_abs(lines):
    rows = []
    info = {}
    for line in lines:
        s = line.strip()
        if not s or s.startswith('ZENITH') or s.startswith('ANGLE'):
            continue
        m = re.match(r'^RADIAL DISTANCE =\s*(\S+)\s+METERS$', s)
        if m:
            info['dist'] = fl(m.group(1))
            continue
        m = re.match(r'^POWER LEVEL =\s*(\S+)\s+WATTS$', s)
        if m:
            info['power'] = fl(m.group(1))
            continue
        t = s.split()
        if len(t) != 6:
            raise ReportError('abs pattern row: %r' % s)
        rows.append(tuple(fl(x) for x in t))
    return info, rows


def parse_far_header(lines):
    r = {}
    for line in lines:
        s = line.strip()
        if not s:
            continue
        m = re.match(r'^(ZENITH ANGLE :|AZIMUTH ANGLE:) INITIAL,INCREMENT,NUMBER:\s*(\S+)\s*,\s*(\S+)\s*,\s*(\S+)$', s)
        if m:
            r['zen' if m.group(1).startswith('ZEN') else 'azi'] = \
                (fl(m.group(2)), fl(m.group(3)), fl(m.group(4)))
            continue
        m = re.match(r'^NEW POWER LEVEL =\s*(\S+)$', s)
        if m:
            r['power'] = fl(m.group(1))
            continue
        raise ReportError('far field header line: %r' % s)
    if 'zen' not in r or 'azi' not in r:
        raise ReportError('far field header incomplete')
    return r


def parse_near_header(lines):
    r = {}
    for line in lines:
        s = line.strip()
        if not s:
            continue
        m = re.match(r'^([XYZ])-COORDINATE \(M\): INITIAL,INCREMENT,NUMBER :\s*(\S+)\s*,\s*(\S+)\s*,\s*(\S+)$', s)
        if m:
            r[m.group(1)] = (fl(m.group(2)), fl(m.group(3)), fl(m.group(4)))
            continue
        m = re.match(r'^NEW POWER LEVEL \(WATTS\) =\s*(\S+)$', s)
        if m:
            r['power'] = fl(m.group(1))
            continue
        raise ReportError('near field header line: %r' % s)
    return r


def parse_near_block(lines, unit):
    """one NEAR ELECTRIC/MAGNETIC FIELDS block -> dict(point, comps, peak)"""
    r = dict(point=None, comps={}, peak=None)
    for line in lines:
        s = line.strip()
        if not s or s.startswith('VECTOR') or s.startswith('COMPONENT'):
            continue
        m = re.match(r'^FIELD POINT: X =\s*(\S+)\s+Y =\s*(\S+)\s+Z =\s*(\S+)$', s)
        if m:
            r['point'] = tuple(fl(m.group(k)) for k in (1, 2, 3))
            continue
        m = re.match(r'^MAXIMUM OR PEAK FIELD =\s*(\S+)\s+' + unit + '$', s)
        if m:
            r['peak'] = fl(m.group(1))
            continue
        t = s.split()
        if len(t) == 5 and t[0] in 'XYZ':
            r['comps'][t[0]] = tuple(fl(x) for x in t[1:])
            continue
        raise ReportError('near field line: %r' % s)
    if r['point'] is None or r['peak'] is None or set(r['comps']) != set('XYZ'):
        raise ReportError('near field block incomplete: %r' % r)
    return r


def parse_report(text):
    """Full report -> dict. Sweep reports (frequency independent part once,
       dependent part per step) are returned with a list of steps."""
    blocks = split_blocks(text)
    head = parse_head(blocks[0][1])
    steps = []
    cur = None
    k = 1
    pending_far = None
    freq = head.get('freq')
    while k < len(blocks):
        title, lines = blocks[k]
        k += 1
        if title == 'FREQ':
            freq = fl(lines[0].split(':', 1)[1])
            for x in lines[2:]:
                if x.strip():
                    raise ReportError('unexpected line after FREQUENCY: %r' % x)
        elif title == 'SOURCE DATA':
            cur = dict(source_data=parse_source_data(lines), currents=None,
                       far_db=None, far_abs=None, near_e=[], near_h=[],
                       far_header=None, near_header=None, freq=freq)
            # in sweep mode FREQUENCY precedes SOURCE DATA inside previous block
            steps.append(cur)
        elif title == 'CURRENT DATA':
            if cur is None:
                raise ReportError('CURRENT DATA before SOURCE DATA')
            cur['currents'] = parse_current_data(lines)
        elif title == 'FAR FIELD':
            if cur is None:
                raise ReportError('FAR FIELD before SOURCE DATA')
            pending_far = parse_far_header(lines)
            cur['far_header'] = pending_far
        elif title == 'PATTERN DATA':
            if cur is None or pending_far is None:
                raise ReportError('PATTERN DATA without FAR FIELD header')
            joined = '\n'.join(lines)
            if 'MAG(V/M)' in joined:
                cur['far_abs'] = parse_pattern_abs(lines)
            else:
                cur['far_db'] = parse_pattern_db(lines)
            pending_far = None
        elif title == 'NEAR FIELDS':
            if cur is None:
                raise ReportError('NEAR FIELDS before SOURCE DATA')
            cur['near_header'] = parse_near_header(lines)
        elif title == 'NEAR ELECTRIC FIELDS':
            cur['near_e'].append(parse_near_block(lines, 'V/M'))
        elif title == 'NEAR MAGNETIC FIELDS':
            cur['near_h'].append(parse_near_block(lines, 'AMPS/M'))
        else:
            raise ReportError('unknown block %r' % title)
    head['steps'] = steps
    return head


TOKEN_BAD = re.compile(r'\b(nan|inf|infinity)\b', re.I)


def has_nonfinite(text):
    return bool(TOKEN_BAD.search(text))
