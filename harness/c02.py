"""C02 -- impedance-matrix terms equal the MININEC-3 potential-integral formulation
(structural sub-statement: assembly of every entry, image clause, all fill
optimisations -- NOT the accuracy of the kernel quadrature).

Every term of the matrix is a fixed combination of values of one routine,
Mininec.psi (the kernel integral along a source half segment / segment).  The
harness replaces psi in its own process by the exact line integral of R^2
(a polynomial surrogate kernel that is rigid-motion invariant, symmetric in
the segment ends and additive over collinear pieces, i.e. has the properties
the fill optimisations rely on) and runs the unmodified
compute_impedance_matrix().  The expected matrix is the published formulation
(vector potential of the two half segments of the source pulse tested along
the observer pulse + differences of the scalar potentials of its two charged
segments at the observer's half-segment ends; over ground minus the same for
the mirror image, except for source pulses on the plane) evaluated by
harness/lattice.py on the pulse table of spec/Topology.tla (TLC) and seeded
lattice coordinates.  All pulse pairs are compared (1e-10 of max |Z|).
"""
import json, math, random
import numpy as np
from . import common as C
from . import topo as T
from . import lattice as L

PID = 'C02'
INVS = ['CountFormula', 'SegJoint', 'JunctionCount']


def check_record(args):
    rec, ground, sd = args[:3]
    long = len(args) > 3
    out = dict(mism=[], exc=None, n=0)
    N = len(rec.get('pulses', []))
    if rec.get('reject') or N == 0:
        return out
    rnd = random.Random('%s/%s' % (sd, C.h(rec['input'])))
    try:
        lam = 10.0
        f = 299.8 / lam
        unit = lam * rnd.choice([0.03, 0.05, 0.08])
        radius = lam * rnd.choice([2e-4, 5e-4])          # thick branch: every term goes through psi
        if long:
            m, geo = L.build_pair(rec, rnd, ground, f, unit, radius, taper_prob=1.0, taper_max=True,
                                  vertical=args[3] % 2 == 0)
        else:
            m, geo = L.build_pair(rec, rnd, ground, f, unit, radius)
        if len(m.pulses) != N:
            out['mism'].append(dict(what='pulse-count'))
            return out
        m.compute_impedance_matrix()
        Z = np.array(m.Z)
        E = geo.surrogate_matrix(2 * math.pi / lam)
        out['n'] = N * N
        scale = np.abs(E).max() or 1.0
        err = np.abs(Z - E) / scale
        if err.max() > 1e-10:
            i, j = np.unravel_index(err.argmax(), err.shape)
            kinds = [p['kind'] for p in rec['pulses']]
            out['mism'].append(dict(what='matrix-entry', err=float(err.max()), obs=int(i), src=int(j),
                                    obs_kind=kinds[i], src_kind=kinds[j], long_tapered=long,
                                    nbad=int((err > 1e-10).sum())))
    except Exception as e:      # noqa
        import traceback
        out['exc'] = repr(e) + traceback.format_exc()[-600:]
    return out


def jobs(chk, tier):
    for r, g in L.long_records(chk):
        for k in range(6 if tier == 'quick' else 40):
            yield (r, g, C.seed() + k, k)
    for r, g, cfg in T.records(chk, tier, INVS):
        if not r.get('reject') and not any(o.get('kind') == 'A' for o in r['input']):
            yield (r, g, C.seed())


def run(tier):
    chk = C.Check(PID, tier, 'model_checking')
    chk.assumptions = [
        'sub-statement only: the 1e-4 agreement of the true kernel integrals with adaptive quadrature (Gauss order selection, exact-kernel and small-radius branches inside psi / integral_i2_i3) is NOT decided; a change confined to the numerics of psi is invisible to this check',
        'TLC 1.8 on spec/Topology.tla supplies the pulse table; harness/lattice.py evaluates the MININEC-3 formulation on it with the surrogate kernel and seeded lattice coordinates',
        'Mininec.psi is replaced in the harness process only (no change to the repository); the replacement honours the calling contract of psi (length = |scale| * seg_len of the half selected by the sign of scale)',
        'radius >= 1e-4 wavelength, so every self term goes through psi (the closed-form small-radius branch is outside this check)']
    L.install_surrogate()
    for job, o in C.parallel_imap(check_record, jobs(chk, tier), chunksize=16):
        r, g = job[0], job[1]
        if not r.get('pulses'):
            continue
        kinds = {p['kind'] for p in r['pulses']}
        chk.case(dict(i=r['input'], g=g), len(r['pulses']) >= 2,
                 sample=dict(input=r['input'], ground=g, pulse_kinds=sorted(kinds)), n=max(1, o['n']))
        chk.traces += 1
        if o['exc']:
            chk.violation(dict(kind='exception', exc=o['exc'].split('(')[0]),
                          dict(input=r['input'], ground=g, exc=o['exc'], spec=r))
        for mm in o['mism']:
            chk.violation(dict(kind=mm['what'], src_kind=mm.get('src_kind'), long_tapered=mm.get('long_tapered')),
                          dict(input=r['input'], ground=g, info=mm, spec=r))
    return chk.finish(
        rule='one case per accepted final state of Topology.tla with at least one pulse (evaluations count matrix '
             'entries compared, all pulse pairs); non-trivial = at least two pulses')


def replay(path):
    d = json.load(open(path))['detail']
    L.install_surrogate()
    o = check_record((d['spec'], d['ground'], C.seed()))
    print(json.dumps(o, indent=1, default=str))
    return 1 if (o['mism'] or o['exc']) else 0
