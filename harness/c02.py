"""C02 -- impedance-matrix terms equal the MININEC-3 potential-integral formulation
(structural sub-statement: assembly of every entry, image clause, all fill
optimisations -- NOT the accuracy of the kernel quadrature).

Every term of the matrix is a fixed combination of values of one routine,
Mininec.psi (the kernel integral along a source half segment / segment).  The
harness replaces psi in its own process by the exact line integral of R^2
(a polynomial surrogate kernel that is rigid-motion invariant, symmetric in
the segment ends and additive over collinear pieces, i.e. has the properties
the fill optimisations rely on) and runs the unmodified
compute_impedance_matrix().  The expected matrix is the published formulation
(vector potential of the two half segments of the source pulse tested along
the observer pulse + differences of the scalar potentials of its two charged
segments at the observer's half-segment ends; over ground minus the same for
the mirror image, except for source pulses on the plane) evaluated by
harness/lattice.py on the pulse table of spec/Topology.tla (TLC) and seeded
lattice coordinates.  All pulse pairs are compared (1e-10 of max |Z|).
"""
import json, math, random
import numpy as np
from . import common as C
from . import topo as T
from . import lattice as L

PID = 'C02'
INVS = ['CountFormula', 'SegJoint', 'JunctionCount', 'ConnectedOnlyIfJoined']


def check_record(args):
    rec, ground, sd = args[:3]
    long = len(args) > 3
    out = dict(mism=[], exc=None, n=0)
    N = len(rec.get('pulses', []))
    if rec.get('reject') or N == 0:
        return out
    rnd = random.Random('%s/%s' % (sd, C.h(rec['input'])))
    try:
        lam = 10.0
        f = 299.8 / lam
        unit = lam * rnd.choice([0.03, 0.05, 0.08])
        radius = lam * rnd.choice([2e-4, 5e-4])          # thick branch: every term goes through psi
        if long:
            m, geo = L.build_pair(rec, rnd, ground, f, unit, radius, taper_prob=1.0, taper_max=True,
                                  vertical=args[3] % 2 == 0)
        else:
            m, geo = L.build_pair(rec, rnd, ground, f, unit, radius)
        if len(m.pulses) != N:
            out['mism'].append(dict(what='pulse-count'))
            return out
        # the exact-kernel rule (which pulse pairs get the exact kernel) as the specification derives it
        ex = np.logical_not(np.array(m.pulses.matrix_geo_unconnected(), dtype=bool))
        if not np.array_equal(ex, np.array(rec['exact'], dtype=bool).reshape(N, N)):
            out['mism'].append(dict(what='exact-kernel-flags', long_tapered=long))
        m.compute_impedance_matrix()
        Z = np.array(m.Z)
        E, scale = geo.surrogate_matrix(2 * math.pi / lam, with_scale=True)
        out['n'] = N * N
        # "of the magnitude of the potential terms the entry is composed of": entries of coincident wires
        # cancel to rounding noise, max |Z| is no scale then
        scale = max(scale, np.abs(E).max()) or 1.0
        err = np.abs(Z - E) / scale
        if err.max() > 1e-10:
            i, j = np.unravel_index(err.argmax(), err.shape)
            kinds = [p['kind'] for p in rec['pulses']]
            out['mism'].append(dict(what='matrix-entry', err=float(err.max()), obs=int(i), src=int(j),
                                    obs_kind=kinds[i], src_kind=kinds[j], long_tapered=long,
                                    nbad=int((err > 1e-10).sum())))
    except Exception as e:      # noqa
        import traceback
        out['exc'] = repr(e) + traceback.format_exc()[-600:]
    return out


def abstract_model(m):
    """the abstract model of spec/FillPlan.tla of a real Mininec object: per object the classes of exactly equal
       / physically equal segment lengths and exactly equal direction vectors (global class numbers), per pulse
       the two (object, segment) halves and the ground flag"""
    import numpy as np

    def classes(values, eq):
        reps, out = [], []
        for x in values:
            for i_, y in enumerate(reps):
                if eq(x, y):
                    out.append(i_ + 1)
                    break
            else:
                reps.append(x)
                out.append(len(reps))
        return out
    segs = [s_ for g in m.geo for s_ in g.segments]
    lc = classes([s_.seg_len for s_ in segs], lambda x, y: x == y)
    pc = classes([s_.seg_len for s_ in segs], lambda x, y: abs(x - y) <= 1e-9 * y)
    dc = classes([np.array(s_.dirvec) for s_ in segs], lambda x, y: bool((x == y).all()))
    objs, k = [], 0
    for g in m.geo:
        n = len(g.segments)
        d = g.segments[0].dirvec
        objs.append(dict(ns=n, lc=lc[k:k + n], pc=pc[k:k + n], dc=dc[k:k + n],
                         vertical=bool(d[0] == 0 and d[1] == 0)))
        k += n
    pulses = [[int(p.segs[0].geobj.n) + 1, int(p.segs[0].idx) + 1, int(p.segs[1].geobj.n) + 1,
               int(p.segs[1].idx) + 1, bool(any(p.ground))] for p in m.pulses]
    return dict(objs=objs, pulses=pulses)


def plan_models(tier, rnd):
    """real models for the fill-plan binding: single straight wires in every segmentation the program offers
       (equal, tapered from end 1 / 2 / both, with and without a maximum), free, grounded at either end, vertical
       and sloping; chains, bends and branches of two and three wires (tapered or not, a grounded vertical among them)"""
    import numpy as np
    from mininec.mininec import Mininec, Wire, ideal_ground
    nrep = 2 if tier == 'quick' else 12
    for rep in range(nrep):
        for ns in (1, 2, 3, 5, 6, 9):
            for st in (0, 1, 2, 3):
                for mx in (False, True):
                    for gnd in ('free', 'g1', 'g2', 'elev'):
                        for vertical in (True, False):
                            if ns < 2 and st:
                                continue
                            z0 = 0.0 if gnd in ('g1', 'g2') else 2.0
                            top = np.array([0.0, 0.0, 3.0 + rnd.random()]) if vertical else \
                                np.array([1.0 + rnd.random(), 0.7, 3.0])
                            a, b = np.array([0.0, 0.0, z0]), np.array([0.0, 0.0, z0]) + top
                            if gnd == 'g2':
                                a, b = b, a
                            w = Wire(ns, *a, *b, 0.003)
                            w.segtype = st
                            if mx and st and ns >= 5:
                                w.taper_max = 1.25 * w.wire_len / ns
                            try:
                                m = Mininec(10.0, [w], media=None if gnd == 'free' else [ideal_ground])
                            except (AssertionError, ValueError):
                                continue
                            yield m, dict(ns=ns, segtype=st, taper_max=mx, ground=gnd, vertical=vertical)
    # several wires: straight continuation (same / different segment length), bend, T, grounded vertical + top wire
    P = dict(a=(0, 0, 0), b=(0, 0, 3.0), c=(0, 0, 6.0), d=(2.5, 0, 3.0), e=(-2.5, 0, 3.0), f=(0, 0, 4.5), g=(1.0, 1.0, 5.0))
    shapes = [[('b', 'c'), ('c', 'g')], [('a', 'b'), ('b', 'c')], [('a', 'b'), ('b', 'f')], [('b', 'a'), ('b', 'c')],
              [('a', 'b'), ('b', 'd')], [('a', 'b'), ('b', 'd'), ('b', 'e')], [('a', 'b'), ('d', 'b'), ('b', 'c')],
              [('e', 'b'), ('b', 'd')], [('e', 'b'), ('d', 'b')], [('b', 'c'), ('e', 'd')]]
    for rep in range(nrep * 3):
        for shp in shapes:
            for ground in (False, True):
                ws = []
                for (p, q) in shp:
                    n = rnd.choice([1, 2, 3, 4, 6])
                    off = np.array([0, 0, 0.0 if ground else 1.0])
                    w = Wire(n, *(np.array(P[p]) + off), *(np.array(P[q]) + off), 0.003)
                    if n >= 2:
                        w.segtype = rnd.choice([0, 0, 1, 2, 3])
                        if n >= 5 and w.segtype and rnd.random() < 0.5:
                            w.taper_max = 1.25 * w.wire_len / n
                    ws.append(w)
                try:
                    m = Mininec(10.0, ws, media=[ideal_ground] if ground else None)
                except (AssertionError, ValueError):
                    continue
                yield m, dict(shape=shp, ground=ground, segs=[w.n_segments for w in ws], segtypes=[w.segtype for w in ws])


def fill_plan_binding(chk, tier):
    """code -> spec for the plan of the fill: the real masks (hook, commit 381133b) of every model of plan_models
       must equal the plan spec/FillPlan.tla derives for the abstract model (objects with segment length /
       direction classes, pulses with their two halves and ground flags); TLC checks the validity invariants of
       the plan on every model it is given."""
    import os, json as _json
    import numpy as np
    rnd = C.rng('c02-plan')
    objs, models = [], []
    for m, info in plan_models(tier, rnd):
        if len(m.pulses) == 0:
            continue
        m.compute_impedance_matrix()
        plan = getattr(m, '_verif_fill_plan', None)
        if plan is None:
            raise C.Machinery('fill plan hook not active')
        objs.append(abstract_model(m))
        models.append((m, plan, info))
    wd = C.workdir('plan-c02')
    tf = os.path.join(wd, 'objs.json')
    _json.dump(objs, open(tf, 'w'))
    cfg = os.path.join(wd, 'Plan.cfg')
    open(cfg, 'w').write('CONSTANTS MaxSeg = 1\n MaxClass = 1\n MaxSeg2 = 0\n EqualAcrossPulses = TRUE\n FromFile = TRUE\n'
                         'INIT Init\nNEXT Next\nINVARIANT ShortcutOnlyIfUniform\nINVARIANT OriginIsComputed\n'
                         'INVARIANT OriginIsCongruent\nINVARIANT CopiedSourceNotGrounded\nINVARIANT JunctionsInFull\n'
                         'INVARIANT Dump\nCHECK_DEADLOCK FALSE\n')
    res = C.tlc('FillPlan', os.path.relpath(cfg, C.SPEC), name='plan-run-c02', workers=4, env=dict(TRACE_FILE=tf))
    if res.violated:
        chk.violation(dict(kind='fill-plan-invalid', invariant=res.violated), dict(tail=res.out[-2500:]))
        return
    if not res.ok:
        raise C.Machinery('TLC failed on FillPlan: ' + res.out[-1500:])
    chk.add_tlc(res)
    plans = {d_['tid']: d_ for d_ in res.printed()}
    if len(plans) != len(objs):
        raise C.Machinery('FillPlan returned %d plans for %d objects' % (len(plans), len(objs)))
    nshort = 0
    for k, (m, plan, info) in enumerate(models):
        sp = plans[k + 1]
        n = sp['np']
        chk.case(dict(o=objs[k]), n >= 2, sample=dict(model=objs[k], built_as=info))
        chk.traces += 1
        opt = np.array(plan['opt'])
        exp_opt = np.array(sp['plan']['opt']).reshape(n, n)
        nshort += int((exp_opt > 0).any())
        bad = None
        if opt.shape != (n, n) or not np.array_equal(opt, exp_opt):
            bad = 'opt'
        else:
            # origin of every entry in the k = 1 pass, from the real masks
            triu = np.triu(np.ones((n, n), dtype=bool), 1)
            copy = triu & (opt > 0)
            origin = {}
            for i in range(n):
                for j in range(n):
                    origin[(i, j)] = (i, j)
            for src, dst in zip(plan['cpy_src'], plan['cpy_dst']):
                for i, j in zip(*np.where(dst)):
                    origin[(int(i), int(j))] = (int(src[0]), int(src[1]))
            for i, j in zip(*np.where(copy)):
                origin[(int(j), int(i))] = origin[(int(i), int(j))]
            exp_or = sp['plan']['origin']
            for i in range(n):
                for j in range(n):
                    e = exp_or[i][j]
                    if origin[(i, j)] != (e[0] - 1, e[1] - 1):
                        bad = 'origin'
            comp = np.array(sp['plan']['computed']).reshape(n, n)
            real_comp = np.logical_not(copy.T) & plan['excp']
            if bad is None and not np.array_equal(comp, real_comp):
                bad = 'computed'
        if bad:
            chk.violation(dict(kind='fill-plan-differs-from-spec', what=bad, several_objects=len(objs[k]['objs']) > 1),
                          dict(model=objs[k], built_as=info))
    chk.cov['fill_plans_validated'] = len(models)
    chk.cov['fill_plans_with_several_objects'] = sum(1 for o in objs if len(o['objs']) > 1)
    chk.cov['fill_plans_with_a_shortcut'] = nshort


def history_case(args):
    """'from nothing but the pulse geometry, the wire radii and the frequency' -- with the REAL kernel: the matrix of
       an object that was filled at another frequency before (radii on the other side of the thin-wire limit
       1e-4 wavelength there) equals the matrix of a fresh object, entry by entry"""
    rec, ground, sd, (f1, f2) = args
    out = dict(mism=[], exc=None, n=0)
    try:
        lam2 = 299.8 / f2
        lam1 = 299.8 / f1
        rnd = random.Random('%s/%s/%s' % (sd, C.h(rec['input']), f1))
        # radii 1, 1.5, 2 times the base (per wire): around the limit of both frequencies
        radius = 1e-4 * math.sqrt(lam1 * lam2) / 1.5
        st = rnd.getstate()
        lay = L.Layout(rec['input'], rnd, min(lam1, lam2) * 0.03)
        m = L.build_real(rec, lay, ground, f1, radius)
        m.compute_impedance_matrix()
        m.f = f2
        m.compute_impedance_matrix()
        fresh = L.build_real(rec, lay, ground, f2, radius)
        fresh.compute_impedance_matrix()
        Z, E = np.array(m.Z), np.array(fresh.Z)
        out['n'] = int(Z.size)
        out['crossing'] = sorted({(float(g.r) > 1e-4 * lam1) != (float(g.r) > 1e-4 * lam2) for g in m.geo})
        err = np.abs(Z - E).max() / np.abs(E).max()
        if err > 1e-12:
            i, j = np.unravel_index(np.abs(Z - E).argmax(), Z.shape)
            out['mism'].append(dict(what='matrix-depends-on-earlier-frequency', err=float(err), obs=int(i), src=int(j),
                                    f1=f1, f2=f2))
    except Exception as e:      # noqa
        import traceback
        out['exc'] = repr(e) + traceback.format_exc()[-600:]
    return out


def history_binding(chk, tier):
    recs = L.long_records(chk)
    pairs = [(3.0, 30.0), (30.0, 3.0), (7.0, 7.4), (14.0, 3.5)]
    js = [(r, g, C.seed(), p) for r, g in recs for p in pairs]
    for (r, g, _, p), o in zip(js, C.parallel_map(history_case, js, chunksize=1)):
        chk.case(dict(hist=r['input'], g=g, p=p), True in (o.get('crossing') or []),
                 sample=dict(input=r['input'], ground=g, frequencies=p), n=max(1, o['n']))
        if o['exc']:
            chk.violation(dict(kind='exception', exc=o['exc'].split('(')[0]), dict(input=r['input'], ground=g, exc=o['exc']))
        for mm in o['mism']:
            chk.violation(dict(kind=mm['what']), dict(input=r['input'], ground=g, info=mm))


def true_case(args):
    """the numeric clause of C02 itself: entries between pulses at least 2.5 segment lengths apart against the published
       formulation with the TRUE kernel (exp(-jkR)/R, R^2 = distance^2 + radius^2 above the thin-wire limit, distance^2
       below it), integrated numerically on the geometry of the specification's pulse table; 1e-4 of the magnitude of
       the potential terms of the entry"""
    rec, ground, sd, thick = args
    out = dict(mism=[], exc=None, n=0, maxdev=0.0)
    if rec.get('reject') or not rec.get('pulses'):
        return out
    rnd = random.Random('%s/true/%s' % (sd, C.h(rec['input'])))
    try:
        lam = 10.0
        f = 299.8 / lam
        unit = lam * rnd.choice([0.03, 0.05, 0.08])
        radius = lam * (rnd.choice([2e-4, 5e-4]) if thick else rnd.choice([1e-5, 4e-5]))
        if thick == 'fat':
            # segments of a few radii: the radius term of the thick-wire kernel is visible 2.5 segments away
            unit = lam * 0.004
            radius = lam * rnd.choice([3e-4, 6e-4])
        m, geo = L.build_pair(rec, rnd, ground, f, unit, radius, taper_prob=0.0 if thick == 'fat' else 0.5)
        if len(m.pulses) != len(rec['pulses']):
            out['mism'].append(dict(what='pulse-count'))
            return out
        E, S, M = geo.true_matrix(2 * math.pi / lam, 1e-4 * lam)
        if not M.any():
            return out
        m.compute_impedance_matrix()
        Z = np.array(m.Z)
        dev = np.where(M, np.abs(Z - E) / np.where(S > 0, S, 1.0), 0.0)
        out['n'] = int(M.sum())
        out['maxdev'] = float(dev.max())
        if dev.max() > 1e-4:
            i, j = np.unravel_index(dev.argmax(), dev.shape)
            kinds = [p['kind'] for p in rec['pulses']]
            out['mism'].append(dict(what='matrix-entry-true-kernel', err=float(dev.max()), obs=int(i), src=int(j),
                                    obs_kind=kinds[i], src_kind=kinds[j], thick=thick, nbad=int((dev > 1e-4).sum())))
    except Exception as e:      # noqa
        import traceback
        out['exc'] = repr(e) + traceback.format_exc()[-600:]
    return out


def true_kernel_part(chk, tier, alljobs):
    rnd = C.rng('c02-true')
    frac = 0.03 if tier == 'quick' else 0.02
    js = []
    for job in alljobs:
        rec = job[0]
        big = len(rec.get('pulses') or []) >= 4
        if len(job) > 3:                                   # the long (many-segment) records: always, thick and thin
            if job[3] < 3:
                js.append((rec, job[1], job[2], [True, False, 'fat'][job[3]]))
        elif big and int(C.h([C.seed(), 'c02-true', rec['input'], job[1]]), 16) % 10000 < frac * 10000:
            # (selected by hash, not by position: TLC's simulation output order varies from run to run)
            js.append((rec, job[1], job[2], [True, False, 'fat'][int(C.h([rec['input'], 'kind']), 16) % 3]))
    worst = 0.0
    npairs = 0
    for j, o in zip(js, C.parallel_map(true_case, js, chunksize=4)):
        if not o['n'] and not o['mism'] and not o['exc']:
            continue
        chk.case(dict(true=j[0]['input'], g=j[1], t=j[3]), True,
                 sample=dict(true_kernel=True, input=j[0]['input'], ground=j[1], thick=j[3], pairs=o['n'], max_deviation=o['maxdev']),
                 n=max(1, o['n']))
        worst = max(worst, o['maxdev'])
        npairs += o['n']
        if o['exc']:
            chk.violation(dict(kind='exception', exc=o['exc'].split('(')[0]), dict(input=j[0]['input'], ground=j[1], exc=o['exc']))
        for mm in o['mism']:
            chk.violation(dict(kind=mm['what'], src_kind=mm.get('src_kind'), thick=mm.get('thick')),
                          dict(input=j[0]['input'], ground=j[1], info=mm, spec=j[0]))
    chk.cov['true_kernel_pairs_compared'] = npairs
    chk.cov['true_kernel_worst_deviation'] = worst


def jobs(chk, tier):
    for r, g in L.long_records(chk):
        for k in range(6 if tier == 'quick' else 40):
            yield (r, g, C.seed() + k, k)
    for r, g, cfg in T.records(chk, tier, INVS):
        if not r.get('reject') and not any(o.get('kind') == 'A' for o in r['input']):
            yield (r, g, C.seed())


def run(tier):
    chk = C.Check(PID, tier, 'model_checking')
    chk.assumptions = [
        'the 1e-4 clause itself (true kernel, pulses at least 2.5 segment lengths apart) is decided on the long records and a seeded sample of the TLC configurations by numerical integration (40-point Gauss-Legendre per straight piece) of exp(-jkR)/R on the geometry of the SPECIFICATION pulse table; the structure of every entry (all pairs, all fill optimisations) on every configuration with the surrogate kernel; self and near terms of the true kernel (exact-kernel branch) are outside the property',
        'TLC 1.8 on spec/Topology.tla supplies the pulse table; harness/lattice.py evaluates the MININEC-3 formulation on it with the surrogate kernel and seeded lattice coordinates',
        'Mininec.psi is replaced in the harness process only (no change to the repository); the replacement honours the calling contract of psi (length = |scale| * seg_len of the half selected by the sign of scale)',
        'radius >= 1e-4 wavelength, so every self term goes through psi (the closed-form small-radius branch is outside this check)']
    # FillPlan.tla on the models TLC enumerates itself (thorough: single objects up to 5 segments, chains 3 + 3), and
    # the plan the code had before fix bcb96bc must stay refuted
    rb = C.tlc('FillPlan', 'MC_FillPlan_before_fix.cfg', name='fillplan-before-fix')
    if rb.violated != 'ShortcutOnlyIfUniform':
        raise C.Machinery('TLC no longer refutes the fill plan without the length comparison: ' + rb.out[-800:])
    chk.cov['refuted_variant_fill_plan_without_length_comparison'] = rb.violated
    if tier != 'quick':
        rf = C.tlc('FillPlan', 'MC_FillPlan.cfg', name='fillplan-enumerated')
        chk.add_tlc(rf)
        if rf.violated:
            chk.violation(dict(kind='spec-invariant', invariant=rf.violated), dict(tail=rf.out[-2000:]))
        elif not rf.ok:
            raise C.Machinery('TLC failed on FillPlan: ' + rf.out[-1500:])
    fill_plan_binding(chk, tier)
    history_binding(chk, tier)          # real kernel: before the surrogate is installed
    alljobs = list(jobs(chk, tier))
    true_kernel_part(chk, tier, alljobs)
    L.install_surrogate()
    for job, o in C.parallel_imap(check_record, alljobs, chunksize=16):
        r, g = job[0], job[1]
        if not r.get('pulses'):
            continue
        kinds = {p['kind'] for p in r['pulses']}
        chk.case(dict(i=r['input'], g=g), len(r['pulses']) >= 2,
                 sample=dict(input=r['input'], ground=g, pulse_kinds=sorted(kinds)), n=max(1, o['n']))
        chk.traces += 1
        if o['exc']:
            chk.violation(dict(kind='exception', exc=o['exc'].split('(')[0]),
                          dict(input=r['input'], ground=g, exc=o['exc'], spec=r))
        for mm in o['mism']:
            chk.violation(dict(kind=mm['what'], src_kind=mm.get('src_kind'), long_tapered=mm.get('long_tapered')),
                          dict(input=r['input'], ground=g, info=mm, spec=r))
    return chk.finish(
        rule='one case per accepted final state of Topology.tla with at least one pulse (evaluations count matrix '
             'entries compared, all pulse pairs); non-trivial = at least two pulses')


def replay(path):
    d = json.load(open(path))['detail']
    L.install_surrogate()
    o = check_record((d['spec'], d['ground'], C.seed()))
    print(json.dumps(o, indent=1, default=str))
    return 1 if (o['mism'] or o['exc']) else 0
