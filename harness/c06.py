"""C06 -- results do not depend on how the same conductor structure is described.

For nine structures (bent, star, T, closed triangle, chain, three grounded
ones) every permutation of the wire order, every choice of directions, every
explicit tag permutation and every split of a wire at a segment boundary
(both pieces in either direction) is a description.  spec/TopologyOn.tla
(TLC) gives the pulse table and the J-line coefficient vectors of every
description and checks all Topology invariants on it; from them the harness
derives, per description, the map pulse currents -> PHYSICAL joint currents
(harness/describe.py).  Each description is solved with the feed on the same
physical joint; feed impedance, physical joint currents, near field at four
points and the far-field pattern must agree with the reference description
(5e-4 relative, growing with the condition number as the property states).
A mirror-symmetric structure with a symmetric feed must have mirror-symmetric
joint currents.
"""
import json, math
import numpy as np
from . import common as C
from . import topo as T
from . import describe as D
from mininec.mininec import Excitation, Angle, Mininec

PID = 'C06'
LAM = 20.0
F = 299.8 / LAM


def tol_for(cond):
    if cond <= 1e3:
        return 5e-4
    if cond <= 1e5:
        return 5e-7 * cond
    return None


def in_domain(m):
    """the domain of the property, evaluated on the wires of THIS description as the program sees them: two wires that
       are neither joined directly nor through a common neighbour stay at least two segment lengths (of the coarser
       of the two) apart -- otherwise the inherited exact-kernel heuristic (exact kernel between pulses of connected
       wires only) legitimately depends on the description"""
    gs = list(m.geo)
    conn = {(a.n, b.n): bool(a is b or a.is_connected(b)) for a in gs for b in gs}
    for i, a in enumerate(gs):
        for b in gs[i + 1:]:
            if conn[(a.n, b.n)] or any(conn[(a.n, c.n)] and conn[(c.n, b.n)] for c in gs):
                continue
            seg = max(max(s_.seg_len for s_ in a.segments), max(s_.seg_len for s_ in b.segments))
            dmin = min(D._seg_dist(np.array(sa.p1, float), np.array(sa.p2, float), np.array(sb.p1, float),
                                   np.array(sb.p2, float)) for sa in a.segments for sb in b.segments)
            if dmin < 2 * seg * (1 - 1e-9):
                return False
    return True


_ORIG_PSI = Mininec.psi


def _psi_on_axis_only(self, vec2, vecv, k, scale, pidx, exact=False, fvs=0):
    """diagnosis only: the exact-kernel branch (which integrates over half of the source piece and presumes the
       observation point on its axis) only where the observation point really lies on that axis"""
    cr = np.linalg.norm(np.cross(vec2, vecv), axis=-1)
    # (absolute scale: the observation point may coincide with an end of the piece up to rounding)
    big = np.maximum(np.linalg.norm(vec2, axis=-1), np.linalg.norm(vecv, axis=-1))
    on_axis = cr <= 1e-9 * big * big + 1e-300
    return _ORIG_PSI(self, vec2, vecv, k, scale, pidx, exact=np.logical_and(exact, on_axis), fvs=fvs)


def solve(desc, rec, feed, force_exact=False):
    maps, clashes = D.joint_maps(desc, rec)
    m = desc.build(LAM, F)
    if force_exact in ('on-axis-only', 'both'):
        import types
        m.psi = types.MethodType(_psi_on_axis_only, m)
    if force_exact and force_exact != 'on-axis-only':
        # diagnosis only: the exact kernel between ALL pulses, whatever wires they belong to
        m.pulses._matrix_geo_unconnected = np.zeros((len(m.pulses), len(m.pulses)), dtype=bool)
    if len(m.pulses) != len(rec['pulses']):
        return dict(err='pulse-count')
    v = maps[feed]
    q = int(np.argmax(np.abs(v)))
    if np.count_nonzero(v) != 1:
        return dict(err='feed-not-a-single-pulse')
    m.register_source(Excitation(complex(v[q])), q)       # polarity follows the canonical direction
    m.compute()
    cond = float(np.linalg.cond(m.Z))
    I = np.array(m.current)
    phys = {k: complex(np.dot(c, I)) for k, c in maps.items()}
    z = m.sources[0].impedance
    m.compute_far_field(Angle(10, 25, 4 if desc.ground else 7), Angle(0, 45, 8))
    gain = np.array(m.far_field.gain)
    pts = [(0.31, 0.12, 0.9), (-0.2, 0.25, 0.7), (0.05, -0.3, 0.35), (0.4, 0.4, 1.4)]
    e, h = [], []
    for p in pts:
        m.compute_near_field(tuple(x * LAM for x in p), (1, 1, 1), (1, 1, 1))
        e.append(np.array(m.e_field[0]))
        h.append(np.array(m.h_field[0]))
    return dict(z=z, phys=phys, gain=gain, e=np.array(e), h=np.array(h), cond=cond, clashes=clashes,
                npulses=len(m.pulses), in_domain=in_domain(m))


def check_structure(args):
    sname, recs_by_label, labels = args
    out = dict(mism=[], exc=None, n=0, skipped=0, maxdev=0.0)
    try:
        descs = {d.label: d for d in D.descriptions(sname)}
        wires = D.STRUCTURES[sname][1]
        # feed: first interior joint of the longest wire
        w0 = max(range(len(wires)), key=lambda w: wires[w][2])
        feed = (w0, 1)
        ref = None
        ref_exact = None
        ref_axis = None
        ref_both = None
        for lb in labels:
            d = descs[lb]
            r = solve(d, recs_by_label[lb], feed)
            if 'err' in r:
                out['mism'].append(dict(what=r['err'], description=lb))
                continue
            if r['clashes']:
                out['mism'].append(dict(what='split-point-currents-inconsistent', description=lb))
            out['n'] += 1
            if ref is None:
                ref = r
                ref_label = lb
                continue
            tol = tol_for(max(r['cond'], ref['cond']))
            if tol is None:
                out['skipped'] += 1
                continue
            kind = lb.split()[0].rstrip('()0123456789, -')
            dz = abs(r['z'] - ref['z']) / abs(ref['z'])
            scale = max(abs(x) for x in ref['phys'].values())
            dc = max(abs(r['phys'][k] - ref['phys'][k]) for k in ref['phys'] if k in r['phys']) / scale
            de = np.abs(r['e'] - ref['e']).max() / np.abs(ref['e']).max()
            dh = np.abs(r['h'] - ref['h']).max() / np.abs(ref['h']).max()
            sel = (ref['gain'] > -100) & (r['gain'] > -100)
            dg = np.abs(r['gain'][sel] - ref['gain'][sel]).max(initial=0)
            devs = (('feed-impedance', dz, tol), ('joint-currents', dc, tol), ('near-field-E', de, tol),
                    ('near-field-H', dh, tol), ('far-field-gain-dB', dg, 10 * math.log10(1 + 2 * tol) + 1e-6))
            if not (r['in_domain'] and ref['in_domain']):
                # outside the domain of the property (e.g. a split right next to a junction of three wires puts a
                # one-segment piece between wires that were neighbours): compared, but a deviation is no violation
                if any(dv > tl for _, dv, tl in devs):
                    out['outside'] = out.get('outside', 0) + 1
                    continue
            out['maxdev'] = max(out['maxdev'], dz, dc, de, dh)
            cause = None
            if any(dv > tl for _, dv, tl in devs):
                # is the deviation explained by the inherited exact-kernel heuristic (exact kernel only between pulses
                # whose OWNER wires are connected -- ownership depends on the description)?  Both descriptions are
                # solved again with the exact kernel between all pulses: if they agree then, that is the cause.
                if ref_exact is None:
                    ref_exact = solve(descs[ref_label], recs_by_label[ref_label], feed, force_exact=True)
                r2 = solve(d, recs_by_label[lb], feed, force_exact=True)
                sc2 = max(abs(x) for x in ref_exact['phys'].values())
                d2 = max(abs(r2['z'] - ref_exact['z']) / abs(ref_exact['z']),
                         max(abs(r2['phys'][k] - ref_exact['phys'][k]) for k in ref_exact['phys'] if k in r2['phys']) / sc2,
                         np.abs(r2['e'] - ref_exact['e']).max() / np.abs(ref_exact['e']).max(),
                         np.abs(r2['h'] - ref_exact['h']).max() / np.abs(ref_exact['h']).max())
                if d2 <= tol:
                    cause = 'exact-kernel-heuristic-depends-on-description'
                    # the specification must predict it: the set of physical pulse pairs with the reduced kernel
                    # (Topology.tla ExactKernel) differs between the two descriptions
                    fa, ida = D.inexact_pairs(d, recs_by_label[lb])
                    fb, idb = D.inexact_pairs(descs[ref_label], recs_by_label[ref_label])
                    if set(ida) != set(idb):
                        raise C.Machinery('physical pulse identities differ between descriptions %s / %s' % (lb, ref_label))
                    if fa == fb:
                        cause = None        # not what the specification predicts: report as an ordinary violation
                else:
                    # ... or by the inherited criterion for the exact-kernel branch, (d0 + d3) / segment <= 1.1, being
                    # met by an observation point that is NOT on the axis of the source piece (a junction of segments of
                    # very different length at an acute angle)?  Both descriptions again with that branch restricted to
                    # observation points on the axis.
                    if ref_axis is None:
                        ref_axis = solve(descs[ref_label], recs_by_label[ref_label], feed, force_exact='on-axis-only')
                    r3 = solve(d, recs_by_label[lb], feed, force_exact='on-axis-only')
                    sc3 = max(abs(x) for x in ref_axis['phys'].values())
                    d3 = max(abs(r3['z'] - ref_axis['z']) / abs(ref_axis['z']),
                             max(abs(r3['phys'][k] - ref_axis['phys'][k]) for k in ref_axis['phys'] if k in r3['phys']) / sc3,
                             np.abs(r3['e'] - ref_axis['e']).max() / np.abs(ref_axis['e']).max(),
                             np.abs(r3['h'] - ref_axis['h']).max() / np.abs(ref_axis['h']).max())
                    if d3 <= tol:
                        cause = 'exact-kernel-criterion-met-off-axis'
                    else:
                        # both at once (three wires on a point AND segments of very different length)
                        if ref_both is None:
                            ref_both = solve(descs[ref_label], recs_by_label[ref_label], feed, force_exact='both')
                        r4 = solve(d, recs_by_label[lb], feed, force_exact='both')
                        sc4 = max(abs(x) for x in ref_both['phys'].values())
                        d4 = max(abs(r4['z'] - ref_both['z']) / abs(ref_both['z']),
                                 max(abs(r4['phys'][k] - ref_both['phys'][k]) for k in ref_both['phys'] if k in r4['phys']) / sc4,
                                 np.abs(r4['e'] - ref_both['e']).max() / np.abs(ref_both['e']).max(),
                                 np.abs(r4['h'] - ref_both['h']).max() / np.abs(ref_both['h']).max())
                        if d4 <= tol:
                            cause = 'exact-kernel-criterion-met-off-axis'
            for nm, dv, tl in devs:
                if dv > tl:
                    out['mism'].append(dict(what=nm, description=lb, reference=ref_label, dev=float(dv),
                                            kind=kind, structure=sname, cause=cause))
        # mirror symmetry: structures symmetric under y -> -y / x -> -x are listed explicitly
    except Exception as e:      # noqa
        import traceback
        out['exc'] = repr(e) + traceback.format_exc()[-600:]
    return out


def symmetric_dipole_check():
    """a mirror-symmetric antenna (V dipole, symmetric feed at the apex) has mirror-symmetric currents"""
    from mininec.mininec import Mininec, Wire
    bad = []
    for order in ((0, 1), (1, 0)):
        for dirs in ((1, 1), (1, -1), (-1, 1), (-1, -1)):
            arms = [((0, 0, 10), (3.0, 0, 11.0)), ((0, 0, 10), (-3.0, 0, 11.0))]
            ws = []
            for k in order:
                a, b = arms[k]
                if dirs[k] < 0:
                    a, b = b, a
                ws.append(Wire(4, *a, *b, 0.002))
            m = Mininec(F, ws)
            # the junction pulse at the apex
            q = [p.idx for p in m.pulses if np.allclose(p.point, (0, 0, 10))][0]
            m.register_source(Excitation(1 + 0j), q)
            m.compute()
            I = {}
            for p in m.pulses:
                I[tuple(np.round(p.point, 6))] = abs(m.current[p.idx])
            for (x, y, z), v in I.items():
                w = I.get((round(-x, 6), y, z))
                if w is None or abs(v - w) > 5e-4 * max(I.values()):
                    bad.append(dict(what='mirror-symmetry', order=order, dirs=dirs))
                    break
    return bad


def tapered_vee_check():
    """V dipole with arms tapered away from the apex (unequal segments: the first and the last
       segment of a wire differ): every order / direction choice must give the same result"""
    from mininec.mininec import Mininec, Wire
    bad = []
    ref = None
    apex = (0.0, 0.0, 10.0)
    tips = [(3.4, 0.0, 11.5), (-3.0, 1.2, 11.0)]
    for order in ((0, 1), (1, 0)):
        for dirs in ((1, 1), (1, -1), (-1, 1), (-1, -1)):
            ws = []
            for k in order:
                a, b = apex, tips[k]
                st = 1                       # tapered from the apex end
                if dirs[k] < 0:
                    a, b = b, a
                    st = 2
                w = Wire(6, *a, *b, 0.002)
                w.segtype = st
                ws.append(w)
            m = Mininec(F, ws)
            q = [p.idx for p in m.pulses if np.allclose(p.point, apex)][0]
            m.register_source(Excitation(1 + 0j), q)
            m.compute()
            cur = {tuple(np.round(p.point, 6)): abs(m.current[p.idx]) for p in m.pulses}
            z = m.sources[0].impedance
            if ref is None:
                ref = (z, cur)
                continue
            if abs(z - ref[0]) > 5e-4 * abs(ref[0]) or set(cur) != set(ref[1]) or \
                    max(abs(cur[k] - ref[1][k]) for k in cur) > 5e-4 * max(ref[1].values()):
                bad.append(dict(what='tapered-vee-description-dependent', order=order, dirs=dirs,
                                z=str(z), zref=str(ref[0])))
    return bad


def run(tier):
    chk = C.Check(PID, tier, 'exploration')
    chk.assumptions = [
        'TLC 1.8 on spec/TopologyOn.tla: pulse table and J-line coefficient vectors of every description, all Topology invariants (CountFormula, KCL, JunctionEndIsSum, ...) checked on each',
        'structures: the fixed list of harness/describe.py plus seeded random trees of 2 .. 4 wires (3 quick, 40 thorough; inside the stated domain: junction angles >= 40 degrees, non-adjacent wires >= 2 segments apart, at most one wire per ground point); descriptions are enumerated exhaustively per structure',
        'numeric comparison of implementation outputs with the tolerance of the property (5e-4, 5e-7 * cond above cond = 1e3, skipped above 1e5)']
    # besides the fixed list: seeded random trees of 2 .. 4 wires inside the domain of the property
    D.add_random_structures(C.seed(), 3 if tier == 'quick' else 40)
    names = sorted(D.STRUCTURES)
    jobs = []
    for sname in names:
        descs = D.descriptions(sname, max_perm=None if tier == 'thorough' else None)
        ground = D.STRUCTURES[sname][2]
        recs = T.spec_records(chk, [d.inp for d in descs], ground, name='c06-' + sname)
        by = {d.label: r for d, r in zip(descs, recs)}
        for d, r in zip(descs, recs):
            if r.get('reject'):
                raise C.Machinery('description rejected by the specification: %s %s' % (sname, d.label))
        jobs.append((sname, by, [d.label for d in descs]))
    for (sname, by, labels), o in zip(jobs, C.parallel_map(check_structure, jobs, chunksize=1)):
        chk.case(sname, True, sample=dict(structure=sname, descriptions=len(labels), first=labels[:3],
                                          max_deviation=o['maxdev']), n=max(1, o['n']))
        chk.traces += o['n']
        for lb in labels:
            chk.nontrivial.add(sname + '/' + lb)
        if o['skipped']:
            chk.skip('condition number above 1e5', o['skipped'])
        if o.get('outside'):
            chk.skip('description outside the domain of the property deviates (exact-kernel heuristic)', o['outside'])
        if o['exc']:
            chk.violation(dict(kind='exception', structure=sname, exc=o['exc'].split('(')[0]), dict(structure=sname, exc=o['exc']))
        for mm in o['mism']:
            chk.violation(dict(kind=mm['what'], structure=sname, description_kind=mm.get('kind'), cause=mm.get('cause')),
                          dict(structure=sname, info=mm, definition=D.STRUCTURES[sname]))
    # the recorded finding at the level of the design: TLC must keep producing the counterexample to "the exact-kernel
    # rule follows the geometry" (four objects, Topology.tla)
    rx = C.tlc('Topology', 'MC_Topology_exact4.cfg', name='exact4')
    if rx.violated != 'ExactKernelFollowsGeometry':
        raise C.Machinery('TLC no longer refutes ExactKernelFollowsGeometry (finding C06 repaired or the model drifted): ' + rx.out[-800:])
    chk.cov['design_counterexample_exact_kernel_rule'] = 'ExactKernelFollowsGeometry refuted by TLC (MC_Topology_exact4.cfg)'
    for b in symmetric_dipole_check() + tapered_vee_check():
        chk.violation(dict(kind=b['what']), b)
    chk.case('symmetric-V', True, n=8)
    chk.case('tapered-V', True, n=8)
    return chk.finish(
        rule='one case per structure, evaluations = descriptions solved (all wire orders x all direction choices, all tag '
             'permutations, every split of every wire at a segment boundary in three direction combinations); every '
             'description is a distinct non-trivial case (counted by label)')


def replay(path):
    d = json.load(open(path))['detail']
    print(json.dumps(d, indent=1, default=str)[:2000])
    return 1
