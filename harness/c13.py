"""C13 -- segmentation tiles each object; tapers, arcs, helices and transformations as documented.

Discrete part (TLC): spec/Transform.tla gives, for every transformation
program, the per-object sequence of elementary maps (order by sort key,
rotations before translations among equal keys, scaling last, tag scope);
spec/Topology.tla states that an object contributes exactly its n segments
chained end to end (SegJoint).  Numeric predicates on the real segmentation
(harness): exactly n segments of positive length chaining from the first to
the last end point; equal lengths for plain wires; tapered wires: ratio of
neighbouring lengths at most 2.1 growing away from the tapered end(s), every
length >= max(2.5 radii, minimum) and <= maximum, end-2 tapering is the
mirror image of end-1 tapering; arc and helix segment ends on the specified
circle / (radius-tapered) elliptical helix at uniform angle steps with the
documented start point and handedness; transformed models equal the
elementary maps applied in the specification's order (lengths and angles
preserved by rotations, scaling multiplies lengths and radius last).
"""
import json, math, random, itertools
import numpy as np
from . import common as C
from . import c05
from mininec.mininec import Mininec, Wire, Arc, Helix
from mininec.taper import Taper_Error

PID = 'C13'
SLACK = 1e-6


def seg_ends(g):
    return np.array([s.p1 for s in g.segments] + [g.segments[-1].p2], float)


def chained(g, p1, p2, n, bad, what):
    segs = g.segments
    if len(segs) != n:
        bad.append(dict(what=what + '-segment-count', got=len(segs), want=n))
        return False
    L = np.linalg.norm(np.array(p2) - np.array(p1))
    for a, b in zip(segs[:-1], segs[1:]):
        if np.linalg.norm(np.array(a.p2) - np.array(b.p1)) > 1e-12 * max(L, 1e-300):
            bad.append(dict(what=what + '-not-chained'))
            return False
    if any(not (s.seg_len > 0) for s in segs):
        bad.append(dict(what=what + '-non-positive-length'))
    if np.linalg.norm(np.array(segs[0].p1) - p1) > 1e-9 * L or np.linalg.norm(np.array(segs[-1].p2) - p2) > 1e-9 * L:
        bad.append(dict(what=what + '-end-points', d1=float(np.linalg.norm(np.array(segs[0].p1) - p1) / L),
                        d2=float(np.linalg.norm(np.array(segs[-1].p2) - p2) / L)))
    # every segment points along the wire
    d = (np.array(p2) - np.array(p1)) / L
    for s in segs:
        if np.linalg.norm(np.array(s.dirvec) - d) > 1e-6:
            bad.append(dict(what=what + '-direction'))
            break
    return True


def wire_case(args):
    kind, sd = args
    rnd = random.Random('%s/%s' % (sd, kind))
    bad = []
    info = dict(kind=kind)
    try:
        n = rnd.choice([1, 2, 3, 5, 8, 13, 21, 50, 200])
        p1 = np.array([rnd.uniform(-5, 5) for _ in range(3)])
        d = np.array([rnd.uniform(-1, 1) for _ in range(3)])
        d /= np.linalg.norm(d)
        length = 10 ** rnd.uniform(-1, 2)
        p2 = p1 + d * length
        r = length / n / rnd.choice([20, 100, 1000])
        seg = kind.split('#')[0].split('/')
        if 'nearzero' in seg:
            # free space: the plane z = 0 means nothing, an end point a hair away from it stays where it is
            # (the ground-detection tolerance is a thousandth of the shortest segment >= 2.5e-3 radii)
            z = r * 2e-3 * rnd.uniform(0.5, 1) * rnd.choice([-1, 1])
            if rnd.random() < 0.5:
                p2 = p2 - np.array([0, 0, p1[2] - z])
                p1 = np.array([p1[0], p1[1], z])
            else:
                p1 = p1 - np.array([0, 0, p2[2] - z])
                p2 = np.array([p2[0], p2[1], z])
            seg.remove('nearzero')
        w = Wire(n, *p1, *p2, r)
        if seg[0] == 'plain':
            # optionally rotated / translated before segmentation (the last transformation may be a rotation)
            if len(seg) > 1:
                from mininec.mininec import Rotation_Matrix
                ang = (rnd.uniform(-180, 180), rnd.uniform(-90, 90), rnd.uniform(-180, 180))
                w.rotate(Rotation_Matrix(ang))
                R = c05.rotm(*ang)
                p1, p2 = R @ p1, R @ p2
                if seg[1] == 'rot+tra':
                    t = np.array([3.0, -2.0, 1.0])
                    w.translate(t)
                    p1, p2 = p1 + t, p2 + t
            m = Mininec(7.0, [w])
            g = m.geo[0]
            if chained(g, p1, p2, n, bad, 'plain'):
                l = np.array([s.seg_len for s in g.segments])
                if np.abs(l - length / n).max() > 1e-9 * length / n:
                    bad.append(dict(what='plain-unequal-lengths'))
            return dict(bad=bad, info=info, accepted=True)
        # tapered
        st = int(seg[1])
        mn = mx = None
        base = length / n
        if 'min' in kind:
            mn = base * rnd.uniform(0.05, 0.6)
        if 'max' in kind:
            mx = base * rnd.uniform(1.2, 6)
        w.segtype = st
        w.taper_min, w.taper_max = mn, mx
        try:
            m = Mininec(7.0, [w])
        except (AssertionError, ValueError, Taper_Error):
            return dict(bad=bad, info=info, accepted=False)       # rejected parameter set (C20's matter)
        g = m.geo[0]
        info.update(n=n, st=st, segtype_used=int(g.segtype))
        if not chained(g, p1, p2, n, bad, 'taper'):
            return dict(bad=bad, info=info, accepted=True)
        l = np.array([s.seg_len for s in g.segments])
        if g.segtype == 0:
            return dict(bad=bad, info=info, accepted=True, fallback=True)
        lo = max(2.5 * r, mn or 0)
        if (l < lo * (1 - SLACK)).any():
            bad.append(dict(what='taper-below-minimum', st=st))
        if mx is not None and (l > mx * (1 + SLACK)).any():
            bad.append(dict(what='taper-above-maximum', st=st))
        ratios = l[1:] / l[:-1]
        if st == 1 and ((ratios > 2.1 * (1 + SLACK)).any() or (ratios < 1 - SLACK).any()):
            bad.append(dict(what='taper1-ratio', st=st))
        if st == 2 and ((1 / ratios > 2.1 * (1 + SLACK)).any() or (1 / ratios < 1 - SLACK).any()):
            bad.append(dict(what='taper2-ratio', st=st))
        if st == 3:
            k = len(l) // 2
            up, dn = ratios[:max(k - 1, 0)], ratios[len(l) - k:]
            if (ratios > 2.1 * (1 + SLACK)).any() or (1 / ratios > 2.1 * (1 + SLACK)).any():
                bad.append(dict(what='taper3-ratio', st=st))
            if np.abs(l - l[::-1]).max() > 1e-9 * l.max():
                bad.append(dict(what='taper3-not-symmetric', st=st))
        if st in (1, 2):
            # mirror: tapering the reversed wire from the other end gives the reversed lengths
            w2 = Wire(n, *p2, *p1, r)
            w2.segtype = 3 - st
            w2.taper_min, w2.taper_max = mn, mx
            m2 = Mininec(7.0, [w2])
            l2 = np.array([s.seg_len for s in m2.geo[0].segments])
            if l2.shape != l.shape or np.abs(l2[::-1] - l).max() > 1e-9 * l.max():
                bad.append(dict(what='taper-mirror', st=st))
        return dict(bad=bad, info=info, accepted=True)
    except Exception as e:      # noqa
        import traceback
        return dict(bad=[dict(what='exception', exc=repr(e) + traceback.format_exc()[-400:])], info=info, accepted=True)


# parameter sets the documentation of mininec/taper.py shows as tapered (length, segments, radius, minimum, maximum,
# taper type): they must be ACCEPTED and really tapered (a change that turns them into rejections or into the silent
# fall-back to equal segments would otherwise only shrink the explored set)
DOCUMENTED = [
    (1.0, 5, 0.001, None, None, 3), (1.0, 5, 0.001, None, 0.3, 3), (1.0, 5, 0.04, None, None, 3), (1.0, 5, 0.05, None, None, 3),
    (1.0, 5, 0.06, None, None, 3), (7.0, 6, 0.001, None, None, 3), (7.0, 6, 0.001, None, 1.5, 3), (7.0, 6, 0.4, None, None, 3),
    (7.0, 6, 0.001, 1.0, None, 3), (3.0, 8, 0.001, None, None, 3), (10.0, 10, 4e-4, 0.32, 4.0, 3), (0.25, 10, 1e-5, 0.008, 0.1, 3),
    (31.0, 5, 0.001, None, None, 1), (31.0, 5, 0.001, None, 7.0, 1), (31.0, 5, 0.001, None, 8.0, 1), (31.0, 5, 0.8, None, None, 1),
    (31.0, 5, 0.001, 2.0, None, 1), (31.0, 5, 0.8, None, None, 2), (31.0, 5, 0.001, None, None, 2), (0.25, 10, 1e-5, 0.008, 0.1, 2),
    (0.25, 7, 0.001, None, None, 1), (0.25, 7, 0.001, None, None, 2), (0.5, 7, 0.001, 1 / 200, None, 1),
    (0.5, 7, 0.001, None, (0.5 - 15 / 100) / 3, 1), (0.5, 7, 0.001, 1 / 200, (0.5 - 15 / 100) / 3, 1),
]


def documented_case(args):
    k, sd = args
    length, n, r, mn, mx, st = DOCUMENTED[k]
    rnd = random.Random('%s/doc/%d' % (sd, k))
    bad = []
    try:
        p1 = np.array([rnd.uniform(-5, 5) for _ in range(3)])
        d = np.array([rnd.uniform(-1, 1) for _ in range(3)])
        d /= np.linalg.norm(d)
        p2 = p1 + d * length
        w = Wire(n, *p1, *p2, r)
        w.segtype = st
        w.taper_min, w.taper_max = mn, mx
        try:
            m = Mininec(7.0, [w])
        except (AssertionError, ValueError, Taper_Error) as e:
            return dict(bad=[dict(what='documented-taper-rejected', exc=type(e).__name__, st=st)])
        g = m.geo[0]
        if g.segtype == 0:
            return dict(bad=[dict(what='documented-taper-fell-back-to-equal-segments', st=st)])
        if chained(g, p1, p2, n, bad, 'taper'):
            l = np.array([s.seg_len for s in g.segments])
            lo = max(2.5 * r, mn or 0)
            if (l < lo * (1 - SLACK)).any():
                bad.append(dict(what='taper-below-minimum', st=st))
            if mx is not None and (l > mx * (1 + SLACK)).any():
                bad.append(dict(what='taper-above-maximum', st=st))
            ratios = l[1:] / l[:-1]
            if (ratios > 2.1 * (1 + SLACK)).any() or (1 / ratios > 2.1 * (1 + SLACK)).any():
                bad.append(dict(what='taper%d-ratio' % st, st=st))
            if st == 1 and (ratios < 1 - SLACK).any() or st == 2 and (ratios > 1 + SLACK).any():
                bad.append(dict(what='taper%d-not-monotonic' % st, st=st))
            if st == 3 and np.abs(l - l[::-1]).max() > 1e-9 * l.max():
                bad.append(dict(what='taper3-not-symmetric', st=st))
            # really tapered: the shortest segment is clearly shorter than the equal segment length unless the
            # minimum forbids it
            if l.min() > (length / n) * (1 - 1e-9) and lo < (length / n) * (1 - 1e-6):
                bad.append(dict(what='documented-taper-not-tapered', st=st))
    except Exception as e:      # noqa
        import traceback
        bad.append(dict(what='exception', exc=repr(e) + traceback.format_exc()[-400:]))
    return dict(bad=bad)


def curve_case(args):
    kind, sd = args
    rnd = random.Random('%s/%s' % (sd, kind))
    bad = []
    try:
        if kind.startswith('arc'):
            n = rnd.choice([3, 4, 7, 12, 36, 100])
            R = 10 ** rnd.uniform(-1, 2)
            a1 = rnd.uniform(-180, 180)
            a2 = a1 + rnd.choice([-1, 1]) * rnd.uniform(5, 359) if 'neg' in kind else a1 + rnd.uniform(5, 360)
            if a2 - a1 > 360:
                a2 = a1 + 360
            g = Arc(n, R, a1, a2, R / 500)
            m = Mininec(7.0, [g])
            pts = seg_ends(m.geo[0])
            if len(pts) != n + 1:
                bad.append(dict(what='arc-segment-count'))
            for i, p in enumerate(pts):
                a = math.radians(a1 + (a2 - a1) * i / n)
                exp = np.array([R * math.cos(a), 0.0, R * math.sin(a)])
                if np.linalg.norm(p - exp) > 1e-9 * R:
                    bad.append(dict(what='arc-point-off-circle-or-angle', i=i))
                    break
        else:
            n = rnd.choice([3, 6, 9, 20, 47, 158])
            L = rnd.choice([-1, 1]) * 10 ** rnd.uniform(-1, 1)
            T = rnd.choice([-1, 1]) * abs(L) / rnd.uniform(0.3, 3.0)
            if n < 3 * abs(L) / abs(T):
                n = int(3 * abs(L) / abs(T)) + 3
            rx1, ry1 = 10 ** rnd.uniform(-1, 0), 10 ** rnd.uniform(-1, 0)
            if 'circ' in kind:
                ry1 = rx1
            rx2, ry2 = (rx1, ry1) if 'untapered' in kind else (rx1 * rnd.uniform(0.3, 2), ry1 * rnd.uniform(0.3, 2))
            g = Helix(n, L, T, min(rx1, ry1) / 300, rx1, ry1, rx2, ry2)
            m = Mininec(7.0, [g])
            pts = seg_ends(m.geo[0])
            if len(pts) != n + 1:
                bad.append(dict(what='helix-segment-count'))
            s = 1 if L * T > 0 else -1
            for i, p in enumerate(pts):
                fz = i / n
                xm, ym = rx1 + fz * (rx2 - rx1), ry1 + fz * (ry2 - ry1)
                if abs(p[2] - fz * abs(L)) > 1e-9 * abs(L):
                    bad.append(dict(what='helix-z-not-uniform', i=i))
                    break
                if abs((p[0] / xm) ** 2 + (p[1] / ym) ** 2 - 1) > 1e-9:
                    bad.append(dict(what='helix-point-off-ellipse', i=i, last=i == n, negative_length=L < 0,
                                    elliptical_end=abs(rx2 - ry2) > 1e-12))
                    break
                ang = s * 2 * math.pi * (fz * abs(L)) / abs(T)
                if L > 0:
                    exp = (xm * math.cos(ang), ym * math.sin(ang))
                else:
                    exp = (-xm * math.sin(ang), ym * math.cos(ang))
                if math.hypot(p[0] - exp[0], p[1] - exp[1]) > 1e-7 * max(xm, ym):
                    bad.append(dict(what='helix-angle-or-handedness', i=i, last=i == n, negative_length=L < 0))
                    break
    except Exception as e:      # noqa
        import traceback
        bad.append(dict(what='exception', exc=repr(e) + traceback.format_exc()[-400:]))
    return dict(bad=bad, info=dict(kind=kind))


def program_case(args):
    rec, sd = args
    rnd = random.Random('%s/%s' % (sd, C.h(rec)))
    try:
        bad, argv = c05.geometry_check(rec, rnd)
        return dict(bad=bad, argv=argv)
    except Exception as e:      # noqa
        return dict(bad=[dict(what='exception', exc=repr(e))], argv=None)


def run(tier):
    chk = C.Check(PID, tier, 'exploration')
    chk.assumptions = [
        'TLC 1.8 on spec/Transform.tla (order and scope of transformation programs: ScaleLast, KeyOrder, Scope); spec/Topology.tla SegJoint for the chaining of the n segments of an object',
        'numeric predicates are evaluated by the harness on the real segmentation; taper classes (end 1/2/3 x min/max given or not) with seeded lengths, radii and counts 1..200; arcs with either sense; helices with every sign combination of length and turn length, circular / elliptical, tapered or not',
        'parameter sets rejected by the program are not counted (their rejection is the matter of C20); bounds carry a relative slack of 1e-6']
    nrep = 60 if tier == 'quick' else 600
    wkinds = ['plain', 'plain/rot', 'plain/rot+tra'] + ['taper/%d%s%s' % (st, a, b) for st in (1, 2, 3)
                                                        for a in ('', '/min') for b in ('', '/max')] \
        + ['plain/nearzero', 'taper/1/nearzero', 'taper/2/nearzero', 'taper/3/nearzero']
    jobs = [('%s#%d' % (k, i), C.seed()) for k in wkinds for i in range(nrep)]
    acc = 0
    for (k, _), o in zip(jobs, C.parallel_map(wire_case, jobs, chunksize=8)):
        if not o['accepted']:
            chk.skip('taper parameters rejected')
            continue
        acc += 1
        chk.case(k, True, sample=dict(wire=k, info=o['info']))
        for b in o['bad']:
            chk.violation(dict(kind=b['what'], st=b.get('st')), dict(case=k, info=b))
    djobs = [(k, C.seed()) for k in range(len(DOCUMENTED))]
    for (k, _), o in zip(djobs, C.parallel_map(documented_case, djobs, chunksize=4)):
        chk.case('documented-taper#%d' % k, True, sample=dict(documented=DOCUMENTED[k]))
        for b in o['bad']:
            chk.violation(dict(kind=b['what'], st=b.get('st')), dict(case=DOCUMENTED[k], info=b))
    ckinds = ['arc/pos', 'arc/neg', 'helix/circ/untapered', 'helix/circ/tapered', 'helix/ell/untapered', 'helix/ell/tapered']
    jobs = [('%s#%d' % (k, i), C.seed()) for k in ckinds for i in range(nrep)]
    for (k, _), o in zip(jobs, C.parallel_map(curve_case, jobs, chunksize=8)):
        chk.case(k, True, sample=dict(curve=k))
        for b in o['bad']:
            chk.violation(dict(kind=b['what'], last=b.get('last'), negative_length=b.get('negative_length')),
                          dict(case=k, info=b))
    # transformation programs
    recs = c05.programs(chk)
    rnd = C.rng('c13')
    frac = 0.05 if tier == 'quick' else 0.5
    pj = [(r, C.seed()) for r in recs if C.pick(r, frac, 'c13-programs')]
    for (r, _), o in C.parallel_imap(program_case, pj, chunksize=8):
        chk.case(dict(r=r), len(r['rot']) + len(r['tra']) + len(r['scl']) >= 2,
                 sample=dict(program=o['argv'], maps=r['maps']))
        chk.traces += 1
        for b in o['bad']:
            chk.violation(dict(kind=b['what'], obj=b.get('obj')), dict(program=r, argv=o['argv'], info=b))
    return chk.finish(
        rule='cases: seeded wires per segmentation class (plain, rotated, 12 taper classes), arcs / helices per sign and shape class, '
             'and transformation programs of Transform.tla (seeded fraction) replayed on wire + arc + helix; all non-trivial')


def replay(path):
    d = json.load(open(path))['detail']
    print(json.dumps(d, indent=1, default=str)[:2500])
    if 'case' in d:
        k = d['case']
        o = (curve_case if k.startswith(('arc', 'helix')) else wire_case)((k, C.seed()))
        print(json.dumps(o, indent=1, default=str))
        return 1 if o['bad'] else 0
    return 1
