"""C15 -- the option file written for a model reproduces that model when read back.

spec/OptionFile.tla transcribes the writers (as_cmdline) and the reader
(main) at the level of options, tags, indices and order; TLC checks
Accepted / RoundTrip / FixPoint on the design and dumps every command line
with the predicted verdict.  Each command line is concretised, run through
the real main(), written with as_cmdline() (also load_by_geo), read back by
main(), and both models are compared (objects with tags, segmentation,
taper, end points; sources; loads with the pulses they sit on; media), the
feed impedances are compared and the re-written option file must equal the
first one.
"""
import io, json, random, contextlib
import numpy as np
from . import common as C
from mininec.mininec import (main, Mininec, Wire, Arc, Helix, Impedance_Load, Series_RLC_Load,
                             Trap_Load, Laplace_Load, Skin_Effect_Load, Insulation_Load)

PID = 'C15'
VOLT = {1: '1', 2: '0.5-2j'}


def concretise(cmd, rnd, extras=True, chain=None):
    argv = ['-f', '14.1']
    # wires form a chain (junctions: the first pulse of a later wire is shared with the
    # previous one) in half of the cases, otherwise they are kept apart
    if chain is None:
        chain = rnd.random() < 0.5
    pt = [0.0, 0.0, 10.0]
    step = [(4, 3, 3), (3, -4, 1), (-2, 3, 4)]
    nw = 0
    for o in cmd['objs']:
        x = 12.0 * o['id']
        tg = ('%d,' % o['tag']) if o['tag'] else ''
        # later wires have 7 or 3 segments: with two pulses of its own a wire is "fully loaded" after two attachments,
        # also when both name the same pulse
        ns = 7 if o['id'] == 1 else rnd.choice([7, 3])
        if o['kind'] == 'W' and chain:
            d = step[nw % 3]
            q = [pt[0] + d[0], pt[1] + d[1], pt[2] + d[2]]
            argv += ['-w', '%s%d,%g,%g,%g,%g,%g,%g,0.001' % ((tg, ns) + tuple(pt) + tuple(q))]
            pt = q
            nw += 1
        elif o['kind'] == 'W':
            argv += ['-w', '%s%d,%g,0,10,%g,3,13,0.001' % (tg, ns, x, x + 4)]
        elif o['kind'] == 'A':
            argv += ['-a', '%s7,%g,10,130,0.0012' % (tg, 1.5 + 0.25 * o['id'])]
        else:
            argv += ['--helix', '%s7,%g,0.6,0.0011,%g,%g,0.25,0.3' % (tg, 0.9 + 0.1 * o['id'], 0.3 + 0.2 * o['id'], 0.35 + 0.2 * o['id'])]
    for t in cmd['taper']:
        lim = rnd.choice(['', ',0.05', ',0,2', ',0.05,1.5'])
        argv.append('--taper-wire=%d,%d%s' % (t['tag'], t['typ'], lim))
    for i, (p, v) in enumerate(zip(cmd['pulses'], cmd['volts'])):
        k = i + 1
        argv.append('--excitation-pulse=%d' % k if p['form'] == 'abs' else
                    '--excitation-pulse=%d,%d' % (k, p['tag']))
        argv.append('--excitation-voltage=' + VOLT[v])
    opt = ['--load=%d%+dj', '--rlc-load=%d,%de-6,', '--trap-load=%d,%de-6,40e-12', None]
    for k in range(4):
        for lid in cmd['loads'][k]:
            if k == 0:
                argv.append('--load=%d%+dj' % (lid, 3 * (lid % 5) - 7))
            elif k == 1:
                argv.append('--rlc-load=%d,%de-6,%de-12' % (lid, lid % 7 + 1, 10 * lid) if lid % 2 else
                            '--rlc-load=%d,,%de-12' % (lid, 10 * lid))
            elif k == 2:
                argv.append('--trap-load=%d,%de-6,40e-12' % (lid % 9 + 1, lid % 5 + 1))
            else:
                argv.append('--laplace-load-a=1,%de-9' % lid)
                argv.append('--laplace-load-b=%d,2e-7,1e-16' % (lid % 4))
    for a in cmd['attach']:
        if a['form'] == 'abs':
            argv.append('--attach-load=%d,%d' % (a['n'], {1: 2, 2: 6}[a['k']]))
        elif a['form'] == 'rel':
            argv.append('--attach-load=%d,%d,%d' % (a['n'], a['k'], a['tag']))
        elif a['form'] == 'alltag':
            argv.append('--attach-load=%d,all,%d' % (a['n'], a['tag']))
        else:
            argv.append('--attach-load=%d,all' % a['n'])
    for s in cmd['skin']:
        argv.append('--skin-effect-conductivity=%de6' % (3 * s['v'] + 1) +
                    (',%d' % s['tag'] if s['tag'] else ''))
    # geometry transformations keep the objects apart: every object is shifted by its tag
    info = dict(transforms=False, media=None, insulation=False)
    if extras:
        c = rnd.random()
        if c < 0.5:
            argv += ['--geo-translate=2,0,%g,0' % rnd.choice([1.5, -2.25]),
                     '--geo-rotate=1,0,0,%g' % rnd.choice([30, 45.5])]
            info['transforms'] = True
        if c > 0.25 and c < 0.75:
            argv += ['--geo-scale=%g' % rnd.choice([0.5, 1.25])]
        med = rnd.choice([None, 'ideal', 'one', 'two-linear', 'three-circular-radials'])
        info['media'] = med
        if med == 'ideal':
            argv += ['--medium=0,0,0']
        elif med == 'one':
            argv += ['--medium=13,0.005,0']
        elif med == 'two-linear':
            argv += ['--medium=13,0.005,0,25', '--medium=5,0.001,-1.5']
        elif med == 'three-circular-radials':
            argv += ['--medium=13,0.005,0,25', '--medium=5,0.001,-1.5,60', '--medium=80,4,-2',
                     '--boundary=circular', '--radial-count=12', '--radial-radius=0.002']
    if extras and rnd.random() < 0.35:
        # insulation: for all objects, or for one object with an explicit tag
        tagged = [o['tag'] for o in cmd['objs'] if o['tag']]
        if tagged and rnd.random() < 0.6:
            argv.append('--insulation-load=0.002,2.5,%d' % rnd.choice(tagged))
        else:
            argv.append('--insulation-load=0.002,2.5')
        info['insulation'] = True
    return argv, info


def run_main(argv):
    out, err = io.StringIO(), io.StringIO()
    with contextlib.redirect_stdout(out), contextlib.redirect_stderr(err):
        try:
            r = main(list(argv), f_err=err, return_mininec=True)
        except SystemExit as e:         # the option parser rejected the command line
            r = 'usage-error-%s' % (e.code,)
    return r, (out.getvalue() + err.getvalue())[-300:]


def tokens(text):
    argv = []
    for t in text.split('\n'):
        if not t:
            continue
        if t.startswith(('-w ', '-a ', '-f ', '--helix ')):
            argv += t.split(' ', 1)
        else:
            argv.append(t)
    return argv


def load_params(l):
    if isinstance(l, Impedance_Load):
        return ('Z', [l._impedance.real, l._impedance.imag])
    if isinstance(l, Series_RLC_Load):
        return ('RLC', [l.r or 0, l.l or 0, l.c or 0])
    if isinstance(l, Trap_Load):
        return ('TRAP', [l.r, l.l, l.c])
    if isinstance(l, Laplace_Load):
        return ('LAP', list(l.a) + list(l.b))
    if isinstance(l, Skin_Effect_Load):
        return ('SKIN', [l.conductivity, l.geobj.tag])
    if isinstance(l, Insulation_Load):
        return ('INS', [l.radius, l.epsilon_r, l.geobj.tag])
    return (type(l).__name__, [])


def project(m):
    objs = []
    for g in m.geo:
        ends = np.array([[s.p1, s.p2] for s in g.segments]).reshape(-1)
        objs.append(dict(cls=type(g).__name__, tag=int(g.tag), nseg=int(g.n_segments),
                         segtype=int(getattr(g, 'segtype', 0)), r=float(g.r_orig), ends=ends,
                         tmin=float(getattr(g, 'taper_min', None) or 0), tmax=float(getattr(g, 'taper_max', None) or 0)))
    srcs = [dict(idx=int(s.idx), v=complex(s.voltage)) for s in m.sources]
    loads = sorted([(load_params(l)[0], [round_sig(x) for x in load_params(l)[1]],
                     sorted(int(p.idx) for p in l.pulses)) for l in m.loads],
                   key=lambda t: (t[0], str(t[1]), t[2]))
    media = [(md.permittivity, md.conductivity, md.height, md.coord, md.nradials, md.radius, md.boundary)
             for md in (m.media or [])]
    return dict(objs=objs, srcs=srcs, loads=loads, media=media, free=m.media is None)


def round_sig(x, n=5):
    x = float(x)
    if x == 0 or not np.isfinite(x):
        return x
    return float('%.*g' % (n, x))


def compare(p1, p2):
    bad = []
    if len(p1['objs']) != len(p2['objs']):
        return ['object-count']
    for a, b in zip(p1['objs'], p2['objs']):
        for k in ('cls', 'tag', 'nseg', 'segtype'):
            if a[k] != b[k]:
                bad.append('object-' + k)
        if a['ends'].shape != b['ends'].shape or not np.allclose(a['ends'], b['ends'], rtol=1e-8, atol=1e-9):
            bad.append('object-geometry')
        if not np.isclose(a['r'], b['r'], rtol=1e-8):
            bad.append('object-radius')
        # (limits of a wire that ended up equally segmented -- tapering not requested or not possible -- describe nothing)
        if (a['segtype'] or b['segtype']) and \
                not (np.isclose(a['tmin'], b['tmin'], rtol=1e-9) and np.isclose(a['tmax'], b['tmax'], rtol=1e-9)):
            bad.append('object-taper-limits')
    if [s['idx'] for s in p1['srcs']] != [s['idx'] for s in p2['srcs']]:
        bad.append('source-pulses')
    elif not np.allclose([s['v'] for s in p1['srcs']], [s['v'] for s in p2['srcs']], rtol=2e-6):
        bad.append('source-voltages')
    if [(l[0], l[2]) for l in p1['loads']] != [(l[0], l[2]) for l in p2['loads']]:
        bad.append('load-pulses')
    elif not all(np.allclose(a[1], b[1], rtol=2e-5) for a, b in zip(p1['loads'], p2['loads'])):
        bad.append('load-values')
    if p1['free'] != p2['free'] or len(p1['media']) != len(p2['media']):
        bad.append('media-count')
    else:
        for a, b in zip(p1['media'], p2['media']):
            if a[6] != b[6] or a[4] != b[4] or not np.allclose(a[:4] + (a[5],), b[:4] + (b[5],), rtol=2e-6):
                bad.append('media-values')
    return sorted(set(bad))


def kind_order_violated(m):
    rank = lambda l: (0 if isinstance(l, Impedance_Load) else 1 if isinstance(l, Series_RLC_Load)
                      else 2 if isinstance(l, Trap_Load) else 3)
    lumped = [rank(l) for l in m.loads if isinstance(l, (Impedance_Load, Laplace_Load))]
    # also two loads of one kind attached in reverse order of their definition
    return lumped != sorted(lumped) or getattr(m, '_verif_same_kind_swapped', False)


def check_record(args):
    rec, sd = args
    cmd = rec['cmd']
    rnd = random.Random('%s/%s' % (sd, C.h(cmd)))
    out = dict(mism=[], exc=None, argv=None, info=None)
    try:
        argv, info = concretise(cmd, rnd, chain=rec.get('chain'))
        out['argv'], out['info'] = argv, info
        try:
            m1, msg = run_main(argv)
        except AssertionError:
            import traceback
            if 'taper.py' not in traceback.format_exc():
                raise
            # the ORIGINAL command line is one the program cannot build (an assertion of the taper
            # algorithm: recorded under C20); there is no model whose description could be compared
            out['skipped'] = 'original-taper-assertion'
            return out
        if not isinstance(m1, Mininec):
            out['mism'].append(dict(what='original-rejected', msg=msg))     # harness / model problem
            return out
        # loads of one kind attached in an order different from their definition order
        nums = [a['n'] for a in cmd['attach']]
        firsts = []
        for n in nums:
            if n not in firsts:
                firsts.append(n)
        out['order'] = dict(out_of_kind_order=firsts != sorted(firsts))
        for by_geo in (False, True):
            text = m1.as_cmdline(load_by_geo=by_geo)
            m2, msg = run_main(tokens(text))
            if not isinstance(m2, Mininec):
                out['mism'].append(dict(what='written-options-rejected', by_geo=by_geo, msg=msg))
                continue
            for b in compare(project(m1), project(m2)):
                out['mism'].append(dict(what=b, by_geo=by_geo))
            t2 = m2.as_cmdline(load_by_geo=by_geo)
            if sorted(t2.split('\n')) != sorted(text.split('\n')):
                d = sorted(set(text.split('\n')) ^ set(t2.split('\n')))
                out['mism'].append(dict(what='rewritten-options-differ', by_geo=by_geo, diff=d[:6]))
            if not by_geo and rec.get('solve'):
                m1.compute(); m2.compute()
                z1 = np.array([s.impedance for s in m1.sources])
                z2 = np.array([s.impedance for s in m2.sources])
                if z1.shape != z2.shape or not np.allclose(z1, z2, rtol=3e-4):
                    out['mism'].append(dict(what='feed-impedance', z1=str(z1), z2=str(z2)))
    except np.linalg.LinAlgError:
        out['skipped'] = 'singular'
    except Exception as e:      # noqa
        import traceback
        out['exc'] = repr(e) + traceback.format_exc()[-500:]
    return out


ATT_BASE = ['-f', '14.1', '-w', '1,3,0,0,10,4,0,10,0.001', '-w', '2,4,0,6,10,5,6,10,0.001', '--excitation-pulse=1',
            '--load=50+5j']
ATT_NP = {1: 2, 2: 3}


def attach_case(args):
    """one final state of spec/AttachForms.tla: the user's attachment options -> real antenna (wire 1 with two pulses,
       wire 2 with three) -> as_cmdline -> read back; the bag of loaded pulses must survive (the property), the
       written option forms are compared with the specification's Write() for coverage"""
    rec, = args
    out = dict(mism=[], exc=None, forms_agree=None)
    try:
        opts = ['--attach-load=1,all' if a['form'] == 'all' else '--attach-load=1,all,%d' % a['o'] if a['form'] == 'obj'
                else '--attach-load=1,%d,%d' % (a['k'], a['o']) for a in rec['att']]
        out['argv'] = ATT_BASE + opts
        m1, msg = run_main(out['argv'])
        if not isinstance(m1, Mininec):
            out['mism'].append(dict(what='original-rejected', msg=msg))
            return out
        first = {o: min(int(p.idx) for p in g.pulses) for o, g in zip((1, 2), m1.geo)}
        bag = lambda m: sorted(int(p.idx) for p in m.loads[0].pulses)
        for by_geo in (False, True):
            text = m1.as_cmdline(load_by_geo=by_geo)
            m2, msg = run_main(tokens(text))
            if not isinstance(m2, Mininec):
                out['mism'].append(dict(what='written-options-rejected', by_geo=by_geo, msg=msg))
                continue
            if bag(m1) != bag(m2):
                out['mism'].append(dict(what='load-pulses', by_geo=by_geo, attach_forms_spec=True))
            # the forms the writer chose, in the specification's vocabulary
            got = []
            for l in text.split('\n'):
                if l.startswith('--attach-load='):
                    f = l.split('=')[1].split(',')
                    if f[1] == 'all':
                        got.append(dict(form='all', o=0, k=0) if len(f) == 2 else dict(form='obj', o=int(f[2]), k=0))
                    elif len(f) == 3:
                        got.append(dict(form='p', o=int(f[2]), k=int(f[1])))
                    else:
                        o = 1 if int(f[1]) - 1 < first[2] else 2
                        got.append(dict(form='p', o=o, k=int(f[1]) - first[o]))
            key = lambda a: (a['form'], a['o'], a['k'])
            agree = sorted(map(key, got)) == sorted(map(key, rec['toks']))
            out['forms_agree'] = agree if out['forms_agree'] is None else (out['forms_agree'] and agree)
    except Exception as e:      # noqa
        import traceback
        out['exc'] = repr(e) + traceback.format_exc()[-500:]
    return out


def outfile_case(args):
    """the option file main() writes for --output-cmdline describes the model GIVEN (start frequency included), whether
       or not the run sweeps the frequency; read back, it gives the same model and the same first step"""
    name, base = args
    import tempfile, os
    out = dict(mism=[], exc=None)
    try:
        ref, msg = run_main(base)
        if not isinstance(ref, Mininec):
            out['mism'].append(dict(what='original-rejected', msg=msg))
            return out
        for vname, extra in (('single', []), ('sweep-up', ['--frequency-steps=3', '--frequency-increment=0.5']),
                             ('sweep-down', ['--frequency-steps=2', '--frequency-increment=-0.75'])):
            fd, path = tempfile.mkstemp(suffix='.pym')
            os.close(fd)
            try:
                so, se = io.StringIO(), io.StringIO()
                with contextlib.redirect_stdout(so), contextlib.redirect_stderr(se):
                    rc = main(base + extra + ['--output-cmdline=' + path], f_err=se)
                if rc:
                    out['mism'].append(dict(what='run-with-output-file-rejected', variant=vname, msg=se.getvalue()[:200]))
                    continue
                text = open(path).read()
            finally:
                os.unlink(path)
            m2, msg = run_main([t for t in tokens(text) if not t.startswith(('--theta', '--phi'))])
            if not isinstance(m2, Mininec):
                out['mism'].append(dict(what='written-options-rejected', variant=vname, msg=msg))
                continue
            if abs(m2.f - ref.f) > 1e-7 * ref.f:
                out['mism'].append(dict(what='written-frequency', variant=vname, written=float(m2.f), given=float(ref.f)))
            for b in compare(project(ref), project(m2)):
                out['mism'].append(dict(what=b, variant=vname))
    except Exception as e:      # noqa
        import traceback
        out['exc'] = repr(e) + traceback.format_exc()[-500:]
    return out


OUTFILE_BASES = [
    ('dipole-load', ['-f', '7.0', '-w', '10,0,0,10,21,0,10,0.001', '--excitation-pulse=5', '--load=50+5j', '--attach-load=1,3']),
    ('tagged-ground', ['-f', '14.2', '--medium=0,0,0', '-w', '7,4,0,0,0,0,0,8,0.002', '-w', '3,3,0,0,8,4,1,8,0.002',
                       '--excitation-pulse=1,7', '--skin-effect-conductivity=3e7,3']),
]


# (config, simulate, fraction of the dumped scenarios replayed)
RUNS = {
    'quick': [('MC_OptionFile_objs.cfg', None, 0.3), ('MC_OptionFile_loads.cfg', None, 0.15),
              ('MC_OptionFile_junction.cfg', None, 1.0), ('MC_OptionFile_full.cfg', 'num=300', 1.0)],
    'thorough': [('MC_OptionFile_objs.cfg', None, 1.0), ('MC_OptionFile_loads.cfg', None, 1.0),
                 ('MC_OptionFile_junction.cfg', None, 1.0), ('MC_OptionFile_full.cfg', 'num=6000', 1.0)],
}


def run(tier):
    chk = C.Check(PID, tier, 'model_checking')
    chk.assumptions = [
        'TLC 1.8 on spec/OptionFile.tla: exhaustive on two slices (objects/tags/taper/sources; loads/attachments/skin effect), simulation on the full configuration',
        'numeric parameters, geometry transformations, scaling and the media forms are chosen by the seeded concretiser (harness/c15.py), not by TLC',
        'models are compared by projection (objects, tags, segmentation, end points to 1e-8, sources, loads with pulse lists, media); printed parameter precision decides the value tolerances']
    # the design (all three writer variants as they should be) satisfies the round trip
    for dcfg in ('MC_OptionFile_design_objs.cfg', 'MC_OptionFile_design_loads.cfg'):
        res = C.tlc('OptionFile', dcfg, timeout=900)
        chk.add_tlc(res)
        if res.violated:
            chk.violation(dict(kind='spec-invariant', invariant=res.violated, cfg=dcfg),
                          dict(tail=res.out[-2500:]))
        elif not res.ok:
            raise C.Machinery('TLC failed on OptionFile design: ' + res.out[-1500:])
    # the writer variant the code had before fix 5540ff0 (loads numbered in attachment order) must stay refuted
    rb = C.tlc('OptionFile', 'MC_OptionFile_before_fix_loads.cfg', timeout=900, name='before-fix-loads')
    if rb.violated != 'RoundTrip':
        raise C.Machinery('TLC no longer refutes the writer variant LoadsInKindOrder = FALSE: ' + rb.out[-800:])
    chk.cov['refuted_variant_loads_numbered_in_attachment_order'] = rb.violated
    # the compaction rule of the attachment writer (spec/AttachForms.tla): the rule of the code holds, the rule it had
    # before fix eb437c2 (as many attachments as pulses = "all") must stay refuted; every final state is replayed
    ra = C.tlc('AttachForms', 'MC_AttachForms.cfg', timeout=900, name='attach-forms')
    chk.add_tlc(ra)
    if ra.violated:
        chk.violation(dict(kind='spec-invariant', invariant=ra.violated, cfg='MC_AttachForms.cfg'), dict(tail=ra.out[-2500:]))
    elif not ra.ok:
        raise C.Machinery('TLC failed on AttachForms: ' + ra.out[-1500:])
    rc_ = C.tlc('AttachForms', 'MC_AttachForms_count.cfg', timeout=900, name='attach-forms-count')
    if rc_.violated != 'RoundTrip':
        raise C.Machinery('TLC no longer refutes the writer variant Rule = "count": ' + rc_.out[-800:])
    chk.cov['refuted_variant_all_when_count_matches'] = rc_.violated
    arecs = list(ra.printed())
    aouts = C.parallel_map(attach_case, [(r,) for r in arecs], chunksize=8)
    nagree = 0
    for r, o in zip(arecs, aouts):
        chk.case(dict(att=r['att']), len(r['att']) >= 2, sample=dict(attach=r['att'], written=r['toks']))
        chk.traces += 1
        if o['exc']:
            chk.violation(dict(kind='exception', where='attach-forms'), dict(att=r['att'], exc=o['exc']))
        for b in o['mism']:
            chk.violation(dict(kind=b['what'], by_geo=b.get('by_geo'), attach_forms_spec=True), dict(att=r['att'], argv=o.get('argv'), info=b))
        nagree += bool(o['forms_agree'])
    chk.cov['attach_forms_states_replayed'] = len(arecs)
    chk.cov['attach_forms_written_options_equal_spec'] = nagree
    if arecs and not nagree:
        raise C.Machinery('AttachForms.tla does not describe the writer: no written option list agrees')
    recs = {}
    rsel = C.rng('c15-select')
    for cfg, sim, frac in RUNS[tier]:
        r = C.tlc('OptionFile', cfg, simulate=sim, depth=(30 if sim else None), workers=(8 if sim else None),
                  timeout=1500)
        if not r.ok:
            raise C.Machinery('TLC failed on OptionFile %s: %s' % (cfg, r.out[-1500:]))
        chk.add_tlc(r)
        for rec in r.printed():
            if frac < 1.0 and not C.pick(rec['cmd'], frac, 'c15-select'):
                continue
            nwires = sum(1 for o in rec['cmd']['objs'] if o['kind'] == 'W')
            if nwires >= 2 and rec['cmd']['attach']:
                # both layouts: wires chained (junction pulses) and apart
                for ch in (True, False):
                    r2 = dict(rec)
                    r2['chain'] = ch
                    recs[C.h(rec['cmd']) + str(ch)] = r2
            else:
                recs[C.h(rec['cmd'])] = rec
    if not recs:
        raise C.Machinery('no OptionFile scenarios')
    rnd = C.rng('c15')
    jobs = []
    for k, rec in sorted(recs.items()):
        rec['solve'] = rnd.random() < (0.15 if tier == 'quick' else 0.4)
        jobs.append((rec, C.seed()))
    agree = 0
    for (rec, _), o in C.parallel_imap(check_record, jobs, chunksize=8):
        cmd = rec['cmd']
        nontriv = len(cmd['objs']) >= 2 or len(cmd['attach']) >= 1 or len(cmd['pulses']) >= 2
        chk.case(dict(c=cmd), nontriv, sample=dict(argv=o['argv'], extras=o['info'], spec_predicts_ok=rec['ok']))
        chk.traces += 1
        if o.get('skipped'):
            chk.skip(o['skipped'])
        if o['exc']:
            chk.violation(dict(kind='exception', exc=o['exc'].split('(')[0]), dict(argv=o['argv'], exc=o['exc'], spec=rec))
        real_ok = not o['mism'] and not o['exc']
        if real_ok == bool(rec['ok']):
            agree += 1
        for mm in o['mism']:
            if mm['what'] == 'original-rejected':
                raise C.Machinery('concretised command line rejected by main: %s %s' % (o['argv'], mm['msg']))
            chk.violation(dict(kind=mm['what'], by_geo=mm.get('by_geo'),
                               loads_attached_out_of_kind_order=o.get('order', {}).get('out_of_kind_order'),
                               spec_predicts_failure=not rec['ok']),
                          dict(argv=o['argv'], info=mm, spec=rec))
    chk.cov['spec_prediction_agrees'] = agree
    for (name, base), o in zip(OUTFILE_BASES, [outfile_case(x) for x in OUTFILE_BASES]):
        chk.case('outfile/' + name, True, sample=dict(output_cmdline=name), n=3)
        if o['exc']:
            chk.violation(dict(kind='exception', exc=o['exc'].split('(')[0]), dict(case=name, exc=o['exc']))
        for mm in o['mism']:
            chk.violation(dict(kind=mm['what'], variant=mm.get('variant'), by_geo=False, loads_attached_out_of_kind_order=False,
                               spec_predicts_failure=False), dict(case=name, info=mm))
    return chk.finish(
        rule='one case per distinct command line dumped by TLC; non-trivial = at least two objects, a load attachment or two sources; '
             'each case is written and read back twice (plain and load_by_geo), a sampled fraction is solved for the feed impedances')


def replay(path):
    d = json.load(open(path))['detail']
    if 'att' in d:
        o = attach_case((dict(att=d['att'], toks=[]),))
        print(json.dumps(o, indent=1, default=str))
        return 1 if (o['mism'] or o['exc']) else 0
    if 'spec' not in d:
        print(json.dumps(d, indent=1, default=str)[:3000])
        return 1
    rec = d['spec']
    rec['solve'] = True
    o = check_record((rec, C.seed()))
    print(json.dumps(o, indent=1, default=str))
    return 1 if (o['mism'] or o['exc']) else 0
