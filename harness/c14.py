"""C14 -- results depend only on the inputs: no history, no run-to-run variation.

(1) TLC checks NoStaleUse / FieldsFresh / RequestsIndependent on
    spec/Lifecycle.tla for all well-formed histories up to MaxLen and dumps
    every maximal history.
(2) spec -> code: every history is replayed on the model archetypes of
    harness/models.py; after each step every result must equal, bit for bit,
    what a fresh object computing only that step produces.
(3) code -> spec: the hook events recorded during those replays (and during
    frequency sweeps through main) are validated as behaviours of the
    specification by TraceLifecycle.tla in one batched TLC run; a stale cache
    use, loads applied twice, or a result of the wrong frequency is a
    property violation, any other rejection a model divergence (exit 2).
(4) sweep step k of main(--frequency-steps) equals a fresh run of main.
(5) the same command line in fresh processes (different hash seeds and
    allocation patterns) gives byte-identical report and option file.
"""
import os, sys, io, json, contextlib, subprocess, hashlib
import numpy as np
from . import common as C
from . import report as R
from . import models as M
import mininec.mininec as MM
from mininec.mininec import Angle, main

PID = 'C14'
FMAP = {7: 7.0, 14: 14.2, 21: 21.05}
FFREQ = {1: dict(zen=(0, 30, 4), azi=(0, 90, 3), kw={}),
         2: dict(zen=(10, 20, 3), azi=(45, 90, 2), kw=dict(pwr=100.0, dist=1000.0))}
NFREQ = {1: dict(start=(1.0, 2.0, 3.0), inc=(1.0, 1.0, 0.5), n=(2, 1, 2), kw={}),
         2: dict(start=(-2.0, 1.0, 15.0), inc=(0.5, 1.0, 1.0), n=(1, 1, 1), kw=dict(pwr=10.0))}
CODES = {1: 'stale-cache-use', 2: 'loads-applied-twice', 3: 'currents-of-other-frequency',
         4: 'field-from-currents-of-other-frequency'}


def do_ff(m, r):
    q = FFREQ[r]
    m.compute_far_field(Angle(*q['zen']), Angle(*q['azi']), **q['kw'])
    return dict(gain=np.array(m.far_field.gain), et=np.array(m.far_field.e_theta),
                ep=np.array(m.far_field.e_phi))


def do_nf(m, r):
    q = NFREQ[r]
    m.compute_near_field(q['start'], q['inc'], q['n'], **q['kw'])
    return dict(e=np.array(m.e_field), h=np.array(m.h_field))


def snap_compute(m):
    return dict(Z=np.array(m.Z), rhs=np.array(m.rhs), cur=np.array(m.current),
                pwr=np.array(m.power))


_fresh = {}
VFAC = {1: 1.0 + 0j, 2: 0.5 + 1.5j}          # voltage settings of the specification: factor on every generator


def set_volts(m, v):
    if not hasattr(m, '_verif_v0'):
        m._verif_v0 = [complex(s.voltage) for s in m.sources]
    for s, v0 in zip(m.sources, m._verif_v0):
        s.voltage = v0 * VFAC[v]


def add_load(m, n):
    from mininec.mininec import Impedance_Load
    m.register_load(Impedance_Load(30.0 + 40.0j * n), min(1, len(m.pulses) - 1))


def fresh(arch, f, what, req=None, v=1, ld=0):
    key = (arch, f, what, req, v, ld)
    if key not in _fresh:
        m = M.ARCHETYPES[arch][0](f)
        if v != 1:
            set_volts(m, v)
        for n in range(1, ld + 1):
            add_load(m, n)
        m.compute()
        if what == 'compute':
            _fresh[key] = snap_compute(m)
        elif what == 'ff':
            _fresh[key] = do_ff(m, req)
        else:
            _fresh[key] = do_nf(m, req)
    return _fresh[key]


def same(a, b):
    return [k for k in a if not (a[k].shape == b[k].shape and
                                 np.array_equal(a[k], b[k], equal_nan=True))]


def replay_history(args):
    arch, hist = args
    out = dict(mism=[], exc=None, trace=None, steps=0)
    if MM._verif_trace is not None:
        del MM._verif_trace[:]
    try:
        m = None
        v, ld = 1, 0
        for k, st in enumerate(hist):
            op = st['op']
            f = FMAP[st['f']]
            if op == 'New':
                m = M.ARCHETYPES[arch][0](f)
            elif op == 'SetF':
                m.f = f
            elif op == 'SetV':
                v = st['v']
                set_volts(m, v)
            elif op == 'AddLoad':
                ld = st['n']
                add_load(m, ld)
            elif op == 'Compute':
                m.compute()
                d = same(snap_compute(m), fresh(arch, f, 'compute', None, v, ld))
                if d:
                    out['mism'].append(dict(step=k, op=op, fields=d, prev=prev_ops(hist, k)))
            elif op == 'FarField':
                d = same(do_ff(m, st['req']), fresh(arch, f, 'ff', st['req'], v, ld))
                if d:
                    out['mism'].append(dict(step=k, op=op, fields=d, prev=prev_ops(hist, k)))
            elif op == 'NearField':
                d = same(do_nf(m, st['req']), fresh(arch, f, 'nf', st['req'], v, ld))
                if d:
                    out['mism'].append(dict(step=k, op=op, fields=d, prev=prev_ops(hist, k)))
            out['steps'] += 1
        if MM._verif_trace is not None:
            out['trace'] = [dict(e) for e in MM._verif_trace if e['obj'] == id(m)]
    except Exception as e:      # noqa
        import traceback
        out['exc'] = repr(e) + traceback.format_exc()[-500:]
    return out


def prev_ops(hist, k):
    """what distinguishes the history before step k (for the signature)"""
    ops = [h['op'] for h in hist[:k]]
    fs = {h['f'] for h in hist[:k + 1]}
    return dict(freq_changed=len(fs) > 1, computed_before='Compute' in ops,
                volts_changed='SetV' in ops, load_added='AddLoad' in ops,
                same_f_recompute=any(h['op'] == 'Compute' and h['f'] == hist[k]['f']
                                     for h in hist[:k]))


# ------------------------------------------------------------ trace validation

def encode_traces(traces):
    """map frequencies / wires to small integers; returns (list, nfreq, nwire)"""
    enc = []
    maxf = maxw = 1
    for tr in traces:
        fs = {}
        ws = {}
        t2 = []
        for e in tr:
            fi = fs.setdefault(e['f'], len(fs) + 1)
            d = dict(ev=e['ev'], f=fi, w=0)
            if 'w' in e:
                d['w'] = ws.setdefault(e['w'], len(ws) + 1)
            t2.append(d)
        maxf = max(maxf, len(fs))
        maxw = max(maxw, len(ws))
        enc.append(t2)
    return enc, maxf, maxw


def validate_traces(chk, traces, name='c14'):
    """batched TLC run; returns list of (index, matched, expected, code)"""
    traces = [t for t in traces if t and t[0]['ev'] == 'SetF']
    if not traces:
        raise C.Machinery('no traces recorded (hooks not active?)')
    # self-test of the binding: a recorded trace with its first matrix fill removed must be rejected
    probe = next((t for t in traces if any(e['ev'] == 'FillZ' for e in t) and any(e['ev'] == 'Solve' for e in t)), None)
    if probe is not None:
        k0 = next(i for i, e in enumerate(probe) if e['ev'] == 'FillZ')
        traces = traces + [probe[:k0] + probe[k0 + 1:]]
    enc, nf, nw = encode_traces(traces)
    wd = C.workdir('trace-' + name)
    tf = os.path.join(wd, 'traces.json')
    json.dump(enc, open(tf, 'w'))
    cfg = os.path.join(wd, 'Trace.cfg')
    with open(cfg, 'w') as fp:
        fp.write('CONSTANTS Freqs = {%s}\n Wires = {%s}\n FFReqs = {0}\n NFReqs = {0}\n MaxLen = 1\n'
                 ' ZintSurvives = FALSE\n AllowRaw = TRUE\n Volts = {1}\n MaxLoads = 0\n ZKept = FALSE\n'
                 'INIT TInit\nNEXT TNext\nCONSTRAINT Constr\nPOSTCONDITION Post\nCHECK_DEADLOCK FALSE\n'
                 % (','.join(str(i) for i in range(1, nf + 1)),
                    ','.join(str(i) for i in range(1, nw + 1))))
    res = C.tlc('TraceLifecycle', os.path.relpath(cfg, C.SPEC), name='trace-run-' + name,
                workers=1, env=dict(TRACE_FILE=tf))
    chk.add_tlc(res)
    verdicts = []
    import re
    for line in open(res.path):
        m = re.match(r'^<<"TV", (\d+), (\d+), (\d+), (\d+)>>', line)
        if m:
            verdicts.append(tuple(int(x) for x in m.groups()))
    if len(verdicts) != len(traces):
        raise C.Machinery('trace validation produced %d verdicts for %d traces: %s'
                          % (len(verdicts), len(traces), res.out[-1500:]))
    if probe is not None:
        t, matched, expected, code = verdicts[-1]
        if matched == expected and not code:
            raise C.Machinery('TraceLifecycle accepted a trace without its matrix fill: the trace validation is vacuous')
        traces, verdicts = traces[:-1], verdicts[:-1]
    return traces, verdicts


# ------------------------------------------------------------ sweep vs fresh (main)

def run_main_text(argv):
    out, err = io.StringIO(), io.StringIO()
    with contextlib.redirect_stdout(out):
        rc = main(argv, f_err=err)
    return rc, out.getvalue()


def step_blocks(text):
    """frequency dependent part of a report per step: list of block lists"""
    blocks = R.split_blocks(text)
    steps = []
    for title, lines in blocks:
        if title == 'HEAD':
            continue
        if title == 'SOURCE DATA':
            steps.append([])
        if title == 'FREQ' or not steps:
            continue
        steps[-1].append((title, [l.rstrip() for l in lines if l.strip()]))
    return steps


def sweep_vs_fresh(args):
    name, argv, f0, inc, n, extra = args
    out = dict(mism=[], exc=None)
    try:
        rc, sweep = run_main_text(argv + extra + ['-f', repr(f0), '--frequency-steps=%d' % n,
                                                  '--frequency-increment=%r' % inc])
        if rc:
            out['exc'] = 'sweep rc=%r' % rc
            return out
        ss = step_blocks(sweep)
        if len(ss) != n:
            out['mism'].append(dict(what='sweep-step-count', got=len(ss), want=n))
            return out
        for k in range(n):
            fk = f0 + k * inc
            rc, single = run_main_text(argv + extra + ['-f', repr(fk)])
            s1 = step_blocks(single)
            if rc or len(s1) != 1:
                out['exc'] = 'single run rc=%r' % rc
                return out
            if s1[0] != ss[k]:
                bad = [a[0] for a, b in zip(s1[0], ss[k]) if a != b]
                out['mism'].append(dict(what='sweep-step-differs', step=k, blocks=bad,
                                        has_skin=any('skin' in a for a in argv)))
    except Exception as e:      # noqa
        out['exc'] = repr(e)
    return out


# ------------------------------------------------------------ run to run

RUN_CMDS = [
    ('vee-3opts', M.VEE_ARGV + ['-f', '7.1', '--option=far-field', '--option=near-field',
                                '--option=far-field-absolute', '--near-field=1,1,1,1,1,1,2,1,1',
                                '--theta=0,45,3', '--phi=0,90,2', '--ff-distance=100']),
    ('invl-loads', M.INVL_ARGV + ['-f', '7.2', '--theta=0,30,4', '--phi=0,45,3']),
    ('attach-all-tags', ['-w', '9,3,0,0,5,4,0,5,0.001', '-w', '4,3,4,0,5,4,3,6,0.001',
                         '-w', '6,2,4,3,6,7,3,6,0.001', '-w', '2,3,7,3,6,7,3,9,0.001',
                         '-w', '3,3,0,0,5,-3,0,6,0.001',
                         '--load=10+5j', '--load=1-2j', '--attach-load=1,all,9', '--attach-load=1,all,4',
                         '--attach-load=1,all,6', '--attach-load=1,all,2', '--attach-load=2,all,3',
                         '--attach-load=2,all,2', '--attach-load=2,1,6',
                         '--excitation-pulse=2,9', '-f', '14', '--theta=0,45,3', '--phi=0,90,2']),
    ('realg-sweep', M.REALG_ARGV + ['-f', '7', '--frequency-steps=2', '--frequency-increment=0.5',
                                    '--theta=10,35,3', '--phi=0,90,2', '--option=far-field',
                                    '--option=far-field-absolute', '--ff-distance=500', '--ff-power=50']),
]

CHILD = r'''
import sys, random
k = int(sys.argv[1])
junk = [object() for _ in range(random.Random(k).randrange(1, 5000))]   # perturb allocation
keep = [[i] * (k % 7 + 1) for i in range(k * 37 % 1000)]
from mininec.mininec import main
sys.exit(main(sys.argv[2:]) or 0)
'''


def run_to_run(args):
    name, argv, nproc, wd = args
    outs = set()
    cmds = set()
    det = []
    for k in range(nproc):
        cf = os.path.join(wd, '%s-%d.cmd' % (name, k))
        env = dict(os.environ)
        env['PYTHONHASHSEED'] = str(k) if k else 'random'
        p = subprocess.run([sys.executable, '-c', CHILD, str(k)] + argv +
                           ['--output-cmdline=' + cf], env=env, capture_output=True, timeout=300)
        if p.returncode:
            return dict(name=name, exc='rc=%d %s' % (p.returncode, p.stderr[-300:].decode(errors='replace')))
        outs.add(hashlib.sha1(p.stdout).hexdigest())
        cmds.add(hashlib.sha1(open(cf, 'rb').read()).hexdigest())
        det.append((k, len(p.stdout)))
    return dict(name=name, exc=None, distinct_reports=len(outs), distinct_cmdfiles=len(cmds))


# ------------------------------------------------------------ driver

def run(tier):
    chk = C.Check(PID, tier, 'model_checking')
    chk.assumptions = [
        'Apalache 0.58 on spec/LifecycleInd.tla (inductive invariant, constants of ConstInit: 3 frequencies, 2 wires, 2 voltage settings, up to 2 added loads)',
        'TLC 1.8 on spec/Lifecycle.tla (all well-formed histories up to MaxLen over 3 frequencies, 2 voltage settings, one load added after construction, 2 far-field and 1-2 near-field requests) and spec/TraceLifecycle.tla',
        'archetype models of harness/models.py cover every load kind (skin effect by conductivity and resistivity, insulation, impedance, RLC, trap, Laplace), free space, ideal and real ground',
        'bit-exact comparison with fresh objects assumes single-threaded BLAS (bin/check sets OMP/OPENBLAS/MKL_NUM_THREADS=1)',
        'hooks in /repo guarded by PYMININEC_VERIF record SetF/FillZ/CacheFill/CacheUse/ApplyLoads/FillRhs/Solve/FarField/NearField']
    cfg = 'MC_Lifecycle_fixed.cfg' if tier == 'quick' else 'MC_Lifecycle_fixed7.cfg'
    res = C.tlc('Lifecycle', cfg)
    chk.add_tlc(res)
    if res.violated:
        chk.violation(dict(kind='spec-invariant', invariant=res.violated),
                      dict(tlc_tail=res.out[-3000:]))
    elif not res.ok:
        raise C.Machinery('TLC failed on Lifecycle: ' + res.out[-2000:])
    hists = list(res.printed())
    if not hists:
        raise C.Machinery('no histories dumped')
    # the invariants keep their teeth: the two design variants the code does NOT implement (skin-effect cache
    # surviving a frequency change = the code before fix e3d5934; compute keeping an existing matrix) must be
    # refuted by TLC
    for vcfg in ('MC_Lifecycle_faithful.cfg', 'MC_Lifecycle_zkept.cfg'):
        rv_ = C.tlc('Lifecycle', vcfg, name='variant-' + vcfg[13:-4])
        if rv_.violated != 'NoStaleUse':
            raise C.Machinery('TLC no longer refutes the design variant %s (NoStaleUse vacuous?): %s' % (vcfg, rv_.out[-800:]))
        chk.cov['refuted_variant_' + vcfg[13:-4]] = rv_.violated
    # histories of ANY length: Apalache proves IndInv of spec/LifecycleInd.tla inductive (Init => IndInv,
    # IndInv /\ Next => IndInv', IndInv => NoStaleUse /\ FieldsFresh) and refutes the inductive step for the
    # variant with a surviving skin-effect cache; TLC checks that LifecycleInd refines Lifecycle
    steps = [('ConstInit', 'Init', 'IndInv', 0, 'ok'), ('ConstInit', 'IndInit', 'IndInv', 1, 'ok'),
             ('ConstInit', 'IndInit', 'Safety', 0, 'ok'), ('ConstInitBad', 'IndInit', 'IndInv', 1, 'violated')]
    for k, (ci, ini, inv, ln, want) in enumerate(steps):
        got = C.apalache('LifecycleInd', ci, ini, inv, ln, 'lifecycle-%d' % k)
        if got != want and want == 'ok':
            chk.violation(dict(kind='spec-inductive-invariant', step='%s/%s/%s' % (ci, ini, inv)), dict(result=got))
        elif got != want:
            raise C.Machinery('Apalache no longer refutes the variant ZintSurvives (IndInv vacuous?)')
    rr = C.tlc('MC_LifecycleInd_refine', 'MC_LifecycleInd_refine.cfg', name='lifecycle-refine')
    chk.add_tlc(rr)
    if rr.violated or not rr.ok:
        raise C.Machinery('LifecycleInd does not refine Lifecycle: ' + rr.out[-1500:])
    chk.cov['apalache_inductive_invariant'] = 'IndInv of LifecycleInd.tla: initiation, consecution, IndInv => NoStaleUse /\\ FieldsFresh proved; variant ZintSurvives refuted; refinement of Lifecycle.tla checked by TLC'
    rnd = C.rng('c14')
    chk.cov['histories_enumerated_by_tlc'] = len(hists)
    cap = 1500 if tier == 'quick' else 20000
    if len(hists) > cap:
        hists = rnd.sample(sorted(hists, key=lambda h_: json.dumps(h_, sort_keys=True)), cap)     # (TLC's output order varies)
    archs = sorted(M.ARCHETYPES)
    jobs = [(a, h_) for h_ in hists for a in archs]
    traces = []
    for (arch, hist), o in C.parallel_imap(replay_history, jobs, chunksize=8):
        fs = {s['f'] for s in hist}
        nontriv = len(fs) >= 2 and arch != 'plain_two_sources'
        chk.case(dict(a=arch, h=hist), nontriv,
                 sample=dict(archetype=arch, history=[(s['op'], s['f'], s.get('req')) for s in hist]),
                 n=max(1, o['steps']))
        chk.traces += 1
        if o['exc']:
            chk.violation(dict(kind='exception', exc=o['exc'].split('(')[0], arch=arch),
                          dict(arch=arch, history=hist, exc=o['exc']))
        for mm in o['mism']:
            chk.violation(dict(kind='history-differs-from-fresh', op=mm['op'], arch=arch,
                               fields=','.join(mm['fields']), **mm['prev']),
                          dict(arch=arch, history=hist, info=mm))
        if o['trace']:
            traces.append(o['trace'])
    # sweeps through main, with traces
    sweeps = []
    for name, (fn, argv) in sorted(M.ARCHETYPES.items()):
        sweeps.append((name, argv, 7.0, 0.35, 3, ['--theta=0,45,3', '--phi=0,90,2']))
        sweeps.append((name, argv, 14.0, -1.5, 2, ['--near-field=1,2,12,1,1,1,2,1,1',
                                                   '--option=near-field', '--option=far-field',
                                                   '--theta=0,45,2', '--phi=0,90,2']))
    if MM._verif_trace is not None:
        del MM._verif_trace[:]
    for job in sweeps:
        o = sweep_vs_fresh(job)
        chk.case(dict(sweep=job[0], f0=job[2], inc=job[3]), True,
                 sample=dict(sweep=job[0], argv=job[1] + job[5], f0=job[2], inc=job[3], steps=job[4]))
        if o['exc']:
            chk.violation(dict(kind='sweep-exception', name=job[0]), dict(job=job, exc=o['exc']))
        for mm in o['mism']:
            chk.violation(dict(kind=mm['what'], name=job[0], blocks=','.join(mm.get('blocks', []))),
                          dict(job=job, info=mm))
    if MM._verif_trace is not None:
        by = {}
        for e in MM._verif_trace:
            if e['obj']:
                by.setdefault(e['obj'], []).append(dict(e))
        traces += list(by.values())
        del MM._verif_trace[:]
    # code -> spec
    diverged = []
    trs, verdicts = validate_traces(chk, traces)
    chk.cov['traces_validated'] = len(trs)
    chk.cov['trace_events'] = sum(len(t) for t in trs)
    chk.traces += len(trs)
    for t, matched, expected, code in verdicts:
        tr = trs[t - 1]
        if code:
            chk.violation(dict(kind='trace-property', code=CODES.get(code, code)),
                          dict(trace=tr[:200], code=code))
        elif matched != expected:
            ev = tr[matched - 1] if matched - 1 < len(tr) else None
            diverged.append('trace %d rejected by TraceLifecycle at event %d of %d (%r): model and '
                            'hooks diverge' % (t, matched, len(tr), ev))
    # run to run
    wd = C.workdir('c14-runs')
    nproc = 4 if tier == 'quick' else 8
    for o in C.parallel_map(run_to_run, [(n, a, nproc, wd) for n, a in RUN_CMDS], procs=4):
        chk.case(dict(cmd=o['name']), True, sample=dict(run_to_run=o['name']), n=nproc)
        if o['exc']:
            raise C.Machinery('run-to-run child failed: %s %s' % (o['name'], o['exc']))
        if o['distinct_reports'] != 1:
            chk.violation(dict(kind='report-differs-between-runs', cmd=o['name']), o)
        if o['distinct_cmdfiles'] != 1:
            chk.violation(dict(kind='option-file-differs-between-runs', cmd=o['name']), o)
    rc = finish(chk)
    if rc == 0 and diverged:
        raise C.Machinery(diverged[0])
    return rc


def finish(chk):
    return chk.finish(
        rule='cases = (archetype, TLC history) pairs (evaluations count executed steps), sweeps through main, and '
             'command lines repeated in fresh processes; non-trivial = history with at least two distinct '
             'frequencies on a model with a load, every sweep, every repeated command line; distinct by hash')


def replay(path):
    d = json.load(open(path))['detail']
    if 'history' in d:
        o = replay_history((d['arch'], d['history']))
        print(json.dumps({k: v for k, v in o.items() if k != 'trace'}, indent=1, default=str))
        return 1 if (o['mism'] or o['exc']) else 0
    if 'job' in d:
        o = sweep_vs_fresh(tuple(d['job']))
        print(json.dumps(o, indent=1, default=str))
        return 1 if (o['mism'] or o['exc']) else 0
    print('replay: rerun bin/check C14 for run-to-run / trace cases')
    return 2
