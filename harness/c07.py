"""C07 -- currents are linear in the source voltages; source data are V/I and Re(VI*)/2.

spec/Circuit.tla (EXTENDS Topology) gives the right-hand-side weight of every
pulse (2 on pulses of grounded wire ends, else 1; TLC invariants
WeightsAgree, GroundWeight, OneRealHalf, FreeSpaceUnit) for every
configuration.  Replay: seeded source sets (1..4 sources on interior,
junction and grounded pulses, both addressing forms, seven complex voltage
classes, grounded-first and grounded-last registration orders) on the real
object: compute_rhs() must equal -j/m * weight * V entry by entry; the solved
currents must scale with a complex factor, superpose over the sources, leave
impedances and the dBi pattern unchanged under scaling; Excitation.impedance
/ .power and the SOURCE DATA block must equal V/I and Re(V I*)/2 of the
current on the feed pulse.
"""
import json, random
import numpy as np
from . import common as C
from . import topo as T
from . import report as R
from mininec.mininec import Excitation, Angle, Impedance_Load

PID = 'C07'
INVS = ['WeightsAgree', 'GroundWeight', 'OneRealHalf', 'FreeSpaceUnit']
VOLTS = [1 + 0j, 1j, -1 + 0j, 2 * np.exp(1j * np.pi / 6), 0.3 - 0.7j, 1e-3 + 0j, 1e3 + 0j]
ALPHAS = [2.0 + 0j, 1j, 0.6 + 0.8j, -3.5 + 0j, 1e-3 * (1 - 1j), 1e-17 * (0.6 + 0.8j), 3e11j]   # 'all complex voltages': also far from 1 V
RUNS = {'quick': [('MC_Circuit_q2.cfg', None, True), ('MC_Circuit_free2.cfg', None, False),
                  ('MC_Circuit_sim5.cfg', 'num=250', True)],
        'thorough': [('MC_Circuit_q2.cfg', None, True), ('MC_Circuit_free2.cfg', None, False),
                     ('MC_Circuit_sim5.cfg', 'num=4000', True)]}
F = 10.0


def records(chk, tier, invs, runs=RUNS):
    for cfg, sim, ground in runs[tier]:
        res = C.tlc('Circuit', cfg, simulate=sim, depth=(16 if sim else None), workers=(8 if sim else None))
        if res.violated:
            if res.violated in invs:
                chk.violation(dict(kind='spec-invariant', invariant=res.violated, cfg=cfg),
                              dict(tail=res.out[-2500:]))
            else:
                raise C.Machinery('Circuit invariant %s violated (%s)' % (res.violated, cfg))
        elif not res.ok:
            raise C.Machinery('TLC failed on Circuit %s: %s' % (cfg, res.out[-1500:]))
        chk.add_tlc(res)
        n = 0
        for r in res.printed():
            n += 1
            yield r, ground
        if not n:
            raise C.Machinery('no Circuit records (%s)' % cfg)


def build_with_sources(rec, ground, srcs, volts, load=None):
    m = T.build(rec['input'], ground, T.Concretiser(), f=F)
    if load is not None:
        m.register_load(Impedance_Load(load[1]), load[0])
    tags = [o['tag'] for o in rec['objs']]
    rel = {q: (k, tags[o]) for o, lst in enumerate(rec['opulses']) for k, q in enumerate(lst)}
    for (q, form), v in zip(srcs, volts):
        if form == 'rel':
            m.register_source(Excitation(complex(v)), rel[q][0], rel[q][1])
        else:
            m.register_source(Excitation(complex(v)), q)
    return m


def check_record(args):
    rec, ground, sd, solve = args
    inp = rec['input']
    out = dict(mism=[], exc=None, solved=False, cond=None, nsrc=0)
    N = len(rec['pulses'])
    if N == 0:
        return out
    rnd = random.Random('%s/%s' % (sd, C.h(inp)))
    w = rec['weight']
    gnd = [q for q in range(N) if w[q] == 2]
    oth = [q for q in range(N) if w[q] == 1]
    try:
        k = min(N, rnd.choice([1, 2, 3, 4]))
        qs = rnd.sample(range(N), k)
        # make sure grounded pulses take part and come first / last in the registration order
        if gnd and oth and k >= 2:
            qs = list(dict.fromkeys([rnd.choice(gnd), rnd.choice(oth)] + qs))[:k]
            if rnd.random() < 0.5:
                qs.reverse()
        srcs = [(q, rnd.choice(['abs', 'rel'])) for q in qs]
        volts = [rnd.choice(VOLTS) for _ in qs]
        out['nsrc'] = k
        # a passive lumped load on some pulse in half of the cases: the antenna stays a linear network
        load = (rnd.randrange(N), rnd.choice([50 + 20j, 5 - 300j, 1000 + 0j])) if rnd.random() < 0.5 else None
        out['load'] = load is not None
        m = build_with_sources(rec, ground, srcs, volts, load)
        # (1) right-hand side, exactly
        m.compute_rhs()
        exp = np.zeros(N, dtype=complex)
        for (q, _), v in zip(srcs, volts):
            exp[q] = -1j / m.m * w[q] * v
        if not np.allclose(m.rhs, exp, rtol=1e-13, atol=0):
            bad = [int(q) for q in range(N) if not np.isclose(m.rhs[q], exp[q], rtol=1e-13, atol=0)]
            out['mism'].append(dict(what='rhs', pulses=bad, grounded=[q for q in bad if w[q] == 2],
                                    order_grounded_first=bool(gnd) and qs[0] in gnd))
        pairs = [frozenset((o['p1'], o['p2'])) for o in inp]
        if not solve or len(set(pairs)) != len(pairs):
            return out
        # (2) solve; linearity
        m.compute()
        cond = np.linalg.cond(m.Z)
        out['cond'] = float(cond)
        if not np.isfinite(cond) or cond > 1e7:
            out['skipped'] = 'ill-conditioned'
            return out
        out['solved'] = True
        I = np.array(m.current)
        scale = np.max(np.abs(I))
        tol = 1e-12 * cond + 1e-10
        a = rnd.choice(ALPHAS)
        m2 = build_with_sources(rec, ground, srcs, [a * v for v in volts], load)
        m2.compute()
        if np.max(np.abs(m2.current - a * I)) > tol * abs(a) * scale:
            out['mism'].append(dict(what='scaling-currents', alpha=str(a)))
        z1 = np.array([s.impedance for s in m.sources])
        z2 = np.array([s.impedance for s in m2.sources])
        if not np.allclose(z1, z2, rtol=max(tol, 1e-9)):
            out['mism'].append(dict(what='scaling-impedance', alpha=str(a)))
        zen, azi = Angle(5, 35, 3), Angle(0, 70, 3)
        if m.power > 0:
            m.compute_far_field(zen, azi)
            m2.compute_far_field(zen, azi)
            g1, g2 = np.array(m.far_field.gain), np.array(m2.far_field.gain)
            sel = (g1 > -200) & (g2 > -200)
            if g1.shape != g2.shape or ((g1 <= -200) != (g2 <= -200)).any() or \
                    np.max(np.abs(g1[sel] - g2[sel]), initial=0) > 1e-6:
                out['mism'].append(dict(what='scaling-dbi', alpha=str(a),
                                        diff=float(np.max(np.abs(g1[sel] - g2[sel]), initial=0))))
            # ... also when a power level is requested for the V/m table (it rescales that table only)
            pw = rnd.choice([100.0, 0.05])
            m.compute_far_field(zen, azi, pwr=pw)
            m2.compute_far_field(zen, azi, pwr=pw)
            h1, h2 = np.array(m.far_field.gain), np.array(m2.far_field.gain)
            for nm, x, y in (('scaled', h1, h2), ('with-and-without-power', g1, h1)):
                sel = (x > -200) & (y > -200)
                if x.shape != y.shape or np.max(np.abs(x[sel] - y[sel]), initial=0) > 1e-6:
                    out['mism'].append(dict(what='dbi-depends-on-requested-power', which=nm,
                                            diff=float(np.max(np.abs(x[sel] - y[sel]), initial=0))))
            e1, e2 = np.array(m.far_field.e_theta), np.array(m2.far_field.e_theta)
            if np.max(np.abs(np.abs(e1) - np.abs(e2))) > 1e-6 * np.max(np.abs(e1)):
                out['mism'].append(dict(what='field-at-requested-power-depends-on-voltage-scale'))
        # the same OBJECT solved again with scaled voltages (as a user changing the excitation does)
        for s, v in zip(m.sources, volts):
            s.voltage = complex(a * v)
        m.compute()
        if np.max(np.abs(m.current - a * I)) > tol * abs(a) * scale:
            out['mism'].append(dict(what='scaling-currents-same-object', alpha=str(a), load=load is not None))
        for s, v in zip(m.sources, volts):
            s.voltage = complex(v)
        m.compute()
        if np.max(np.abs(m.current - I)) > tol * scale:
            out['mism'].append(dict(what='recompute-same-object', load=load is not None))
        # superposition: each source alone, the others held at 0 V
        tot = np.zeros(N, dtype=complex)
        for j in range(len(srcs)):
            vj = [v if i == j else 0j for i, v in enumerate(volts)]
            mj = build_with_sources(rec, ground, srcs, vj, load)
            mj.compute()
            tot += mj.current
        if np.max(np.abs(tot - I)) > tol * scale:
            out['mism'].append(dict(what='superposition', nsrc=k))
        # (3) source data
        for s, (q, _), v in zip(m.sources, srcs, volts):
            if s.idx != q:
                out['mism'].append(dict(what='source-idx'))
            if not np.isclose(s.impedance, v / I[q], rtol=1e-12):
                out['mism'].append(dict(what='impedance-not-V/I'))
            if not np.isclose(s.power, (v * np.conj(I[q])).real / 2, rtol=1e-12, atol=1e-300):
                out['mism'].append(dict(what='power-not-ReVI*/2'))
        if not np.isclose(m.power, sum((v * np.conj(I[q])).real / 2 for (q, _), v in zip(srcs, volts)),
                          rtol=1e-11, atol=1e-300):
            out['mism'].append(dict(what='total-power'))
        sd_ = R.parse_source_data(m.source_data_as_mininec().split('\n')[1:])
        if len(sd_) != len(srcs):
            out['mism'].append(dict(what='source-data-blocks'))
        else:
            for blk, (q, _), v in zip(sd_, srcs, volts):
                z = v / I[q]
                p = (v * np.conj(I[q])).real / 2
                ok = (blk['pulse'] == q + 1 and abs(blk['impedance'] - z) <= 6e-6 * abs(z) + 1e-300 and
                      abs(blk['current'] - I[q]) <= 6e-6 * abs(I[q]) and
                      abs(blk['power'] - p) <= 6e-6 * abs(p) + 1e-300)
                if not ok:
                    out['mism'].append(dict(what='source-data-text', nsrc=k))
    except np.linalg.LinAlgError:
        out['skipped'] = 'singular'
    except Exception as e:      # noqa
        import traceback
        out['exc'] = repr(e) + traceback.format_exc()[-500:]
    return out


def jobs(chk, tier):
    rnd = C.rng('c07')
    frac = 0.25 if tier == 'quick' else 0.6
    for r, g in records(chk, tier, INVS):
        yield (r, g, C.seed(), C.pick([r['input'], g], frac, 'c07-solve'))


def run(tier):
    chk = C.Check(PID, tier, 'exploration')
    chk.assumptions = [
        'TLC 1.8 on spec/Circuit.tla (EXTENDS Topology): weights per pulse for every configuration',
        'source sets, addressing forms, voltages and the scaling factor are seeded choices of the harness on the pulse table given by the specification',
        'point ids concretised by the generic layout of harness/topo.py at 10 MHz (segments lambda/100 .. lambda/10); solved comparisons use a tolerance of 1e-12 * cond(Z); systems with cond > 1e7 and overlapping wires are skipped and counted']
    for (r, g, _, solve), o in C.parallel_imap(check_record, jobs(chk, tier), chunksize=16):
        if not r['pulses']:
            continue
        w = r['weight']
        chk.case(dict(i=r['input'], g=g), o['nsrc'] >= 2 or 2 in w,
                 sample=dict(input=r['input'], ground=g, weights=w, nsources=o['nsrc']))
        chk.traces += 1
        if o.get('skipped'):
            chk.skip(o['skipped'])
        if o['solved']:
            chk.cov['solved'] = chk.cov.get('solved', 0) + 1
        if o['exc']:
            chk.violation(dict(kind='exception', exc=o['exc'].split('(')[0]),
                          dict(input=r['input'], ground=g, exc=o['exc'], spec=r))
        for mm in o['mism']:
            chk.violation(dict(kind=mm['what']), dict(input=r['input'], ground=g, info=mm, spec=r))
    return chk.finish(
        rule='one case per final state of Circuit.tla with at least one pulse; a seeded source set per case; '
             'non-trivial = at least two sources or a grounded pulse; a seeded fraction is solved for the linearity, '
             'source-data and pattern relations')


def replay(path):
    d = json.load(open(path))['detail']
    o = check_record((d['spec'], d['ground'], C.seed(), True))
    print(json.dumps(o, indent=1, default=str))
    return 1 if (o['mism'] or o['exc']) else 0
