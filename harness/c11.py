"""C11 -- real ground changes only the far field, consistently with its limits.

spec/Media.tla (TLC) models the medium chain and the lookup "first medium
whose interface is not exceeded" and checks that the lookup is unchanged by
splitting a medium into adjacent pieces with identical constants and by
appending a medium beyond every reflection distance; it dumps every (chain,
variant) pair.  Replay on real models (antennas on and off the axis, linear
and circular boundaries, with and without radials, azimuth sectors):
 - currents and impedances over every real ground are IDENTICAL (bitwise) to
   those over ideal ground;
 - with conductivity 1e12 the pattern equals the ideal-ground pattern above
   grazing (0.01 dB for theta <= 85 degrees);
 - chain and variant of every TLC pair give identical patterns; interface
   positions are concretised relative to the reflection distances computed by
   the harness from the pulse positions and the requested directions.
"""
import json, math, random
import numpy as np
from . import common as C
from mininec.mininec import Mininec, Wire, Excitation, Medium, Angle, ideal_ground, Impedance_Load

PID = 'C11'
EPS_SIG = {1: (13.0, 0.005), 2: (5.0, 0.001), 3: (80.0, 4.0)}
HEIGHT = {1: 0.0, 2: -0.5, 3: -1.5}


def antennas():
    def vert(x0, y0):
        return [Wire(5, x0, y0, 0, x0, y0, 9.5, 0.002)], [(0, 1 + 0j)], [(Impedance_Load(20 + 100j), 0)]

    def invl(x0, y0):
        return [Wire(4, x0, y0, 0, x0, y0, 8, 0.002), Wire(3, x0, y0, 8, x0 + 5, y0 + 2, 8, 0.002)], \
               [(0, 1 + 0j)], [(Impedance_Load(5 + 40j), 0), (Impedance_Load(3 - 10j), 4)]

    def hdip(x0, y0):
        return [Wire(6, x0 - 5, y0, 10, x0 + 5, y0 + 1, 10, 0.002)], [(2, 1 + 0j)], []

    def sloper(x0, y0):
        return [Wire(4, x0, y0, 0, x0 + 2, y0 + 1, 6, 0.002), Wire(3, x0 + 2, y0 + 1, 6, x0 + 2, y0 + 6, 7, 0.002)], \
               [(1, 1 + 0j), (5, 0.5j)], [(Impedance_Load(50 + 0j), 0)]
    return dict(vert=vert, invl=invl, hdip=hdip, sloper=sloper)


def build(name, x0, y0, media, f=7.1):
    ws, srcs, loads = antennas()[name](x0, y0)
    m = Mininec(f, ws, media=media)
    for q, v in srcs:
        m.register_source(Excitation(v), q)
    for l, q in loads:
        m.register_load(l, q)
    return m


def reflection_distances(m, zen, azi, circular):
    """distances (x for linear, radius for circular boundaries) of the specular points of all
       pulses for all requested directions"""
    d = []
    for th in zen.angle_deg():
        t = math.radians(th)
        if abs(math.cos(t)) < 1e-9:
            continue
        for ph in azi.angle_deg():
            p_ = math.radians(ph)
            for p in m.pulses:
                s = p.point[2] * math.tan(t)
                x = p.point[0] + s * math.cos(p_)
                y = p.point[1] + s * math.sin(p_)
                d.append(math.hypot(x, y) if circular else x)
    return d


def heights_of(chain, variant, kind):
    """heights of the media of chain and variant: the first medium has height 0, the pieces of a
       split medium share its height ("identical constants and height")"""
    hc = [0.0 if i == 0 else HEIGHT[m['c']] for i, m in enumerate(chain)]
    if kind == 'split':
        k = [i for i in range(len(chain)) if variant[i] != chain[i]][0] if variant[:len(chain)] != chain else len(chain) - 1
        # the split medium is the first position where the interface coordinate differs
        k = next(i for i in range(len(chain)) if variant[i]['u'] != chain[i]['u'])
        hv = hc[:k] + [hc[k], hc[k]] + hc[k + 1:]
    else:
        hv = hc + [HEIGHT[variant[-1]['c']]]
    return hc, hv


def media_from(chain, coords, boundary, radials, heights):
    ms = []
    for i, md in enumerate(chain):
        e, s_ = EPS_SIG[md['c']]
        kw = dict(boundary=boundary)
        if i > 0:
            kw['height'] = heights[i]
        if md['u'] < 1000000:
            kw['coord'] = coords[md['u']]
        if i == 0 and radials and len(chain) > 1:
            kw.update(nradials=16, radius=0.001)
        ms.append(Medium(e, s_, **kw))
    return ms


def check_pair(args):
    rec, sd = args
    rnd = random.Random('%s/%s' % (sd, C.h(rec)))
    out = dict(mism=[], exc=None, info=None)
    try:
        name = rnd.choice(sorted(antennas()))
        x0, y0 = rnd.choice([(0, 0), (0, 15.0), (-8.0, 3.0), (12.0, -20.0)])
        boundary = rnd.choice(['linear', 'circular'])
        radials = boundary == 'circular' and rnd.random() < 0.4
        zen = rnd.choice([Angle(rnd.choice([0, 5]), rnd.choice([10, 17]), rnd.choice([5, 6])),
                          Angle(-80, 10, 8), Angle(-70, 12, 6), Angle(-60, 15, 9)])
        a0 = rnd.choice([0, 90, 240, -30])
        azi = Angle(a0, rnd.choice([15, 30]), rnd.choice([3, 5, 12]))
        probe = build(name, x0, y0, [ideal_ground])
        dist = reflection_distances(probe, zen, azi, boundary == 'circular')
        dmax, dmin = max(dist), min(dist)
        # abstract coordinates (2, 5, 9, 14, 40) -> metres: spread over the range of the reflection
        # distances so that the lookup really switches media; 40 lies beyond every reflection point
        span = max(dmax - max(dmin, 0), 1.0)
        lo = max(dmin, 0.0) if boundary == 'circular' else dmin
        coords = {2: lo + 0.15 * span, 5: lo + 0.35 * span, 9: lo + 0.6 * span, 14: lo + 0.85 * span,
                  40: dmax * 1.02 + 1.0 if dmax > 0 else 1.0}
        if boundary == 'circular':
            coords = {k: max(v, 0.5 + 0.1 * k) for k, v in coords.items()}
        chain, variant = rec['chain'], rec['variant']
        if rec['kind'] == 'split':
            pass
        # the height is part of "identical constants": first medium height 0 in both
        if len(chain) < 2:
            radials = False                      # a radial screen needs a second medium
        if rec['kind'] == 'split' and variant[0]['u'] != chain[0]['u']:
            radials = False                      # (the screen reaches to the first interface: splitting the
                                                 #  first medium would shorten the screen -- another antenna)
        hc, hv = heights_of(chain, variant, rec['kind'])
        m1 = build(name, x0, y0, media_from(chain, coords, boundary, radials, hc))
        m2 = build(name, x0, y0, media_from(variant, coords, boundary, radials, hv))
        mi = build(name, x0, y0, [ideal_ground])
        out['info'] = dict(antenna=name, at=(x0, y0), boundary=boundary, radials=radials, kind=rec['kind'],
                           chain=chain, variant=variant, azimuth=(a0, azi.inc, azi.number))
        for m in (m1, m2, mi):
            m.compute()
        # currents identical to ideal ground
        for nm, m in (('chain', m1), ('variant', m2)):
            if not (np.array_equal(m.current, mi.current) and np.array_equal(m.Z, mi.Z)):
                out['mism'].append(dict(what='currents-depend-on-ground-constants', which=nm,
                                        dev=float(np.abs(m.current - mi.current).max() / np.abs(mi.current).max())))
            z = [s.impedance for s in m.sources]
            zi = [s.impedance for s in mi.sources]
            if z != zi:
                out['mism'].append(dict(what='impedance-depends-on-ground-constants', which=nm))
        m1.compute_far_field(zen, azi)
        m2.compute_far_field(zen, azi)
        g1, g2 = np.array(m1.far_field.gain), np.array(m2.far_field.gain)
        if g1.shape != g2.shape or np.abs(g1 - g2).max() > 1e-9:
            out['mism'].append(dict(what='pattern-changed-by-' + rec['kind'], dev=float(np.abs(g1 - g2).max()),
                                    boundary=boundary, off_axis=(y0 != 0)))
    except Exception as e:      # noqa
        import traceback
        out['exc'] = repr(e) + traceback.format_exc()[-600:]
    return out


def limit_case(args):
    name, x0, y0, sd = args
    out = dict(mism=[], exc=None)
    try:
        zen, azi = Angle(0, 5, 18), Angle(0, 30, 12)
        mi = build(name, x0, y0, [ideal_ground])
        mr = build(name, x0, y0, [Medium(10.0, 1e12)])
        ml = build(name, x0, y0, [Medium(13.0, 0.005)])
        for m in (mi, mr, ml):
            m.compute()
            m.compute_far_field(zen, azi)
        if not np.array_equal(mr.current, mi.current) or not np.array_equal(ml.current, mi.current):
            out['mism'].append(dict(what='currents-depend-on-ground-constants'))
        gi, gr = np.array(mi.far_field.gain)[..., 2], np.array(mr.far_field.gain)[..., 2]
        sel = gi > -40
        d = np.abs(gi[sel] - gr[sel]).max(initial=0)
        if d > 0.01:
            out['mism'].append(dict(what='high-conductivity-limit', dev=float(d)))
        # a lossy ground never radiates more than ideal ground in total ... (not asserted: C01)
    except Exception as e:      # noqa
        import traceback
        out['exc'] = repr(e) + traceback.format_exc()[-600:]
    return out


def run(tier):
    chk = C.Check(PID, tier, 'exploration')
    chk.assumptions = [
        'TLC 1.8 on spec/Media.tla: every chain of up to three media with every split / extension variant; invariants SameLookup and Monotone',
        'abstract interface coordinates are concretised by the harness relative to the reflection distances it computes from pulse positions and requested directions (interfaces inside the range of reflection points, the extension beyond all of them)',
        'antennas (vertical, inverted L, horizontal dipole, sloper with two sources) on and off the axis, linear and circular boundaries, radials, azimuth sectors: seeded choices']
    res = C.tlc('Media', 'MC_Media.cfg')
    if res.violated:
        chk.violation(dict(kind='spec-invariant', invariant=res.violated), dict(tail=res.out[-2000:]))
    elif not res.ok:
        raise C.Machinery('TLC failed on Media: ' + res.out[-1500:])
    chk.add_tlc(res)
    recs = list(res.printed())
    if not recs:
        raise C.Machinery('no Media records')
    reps = 1 if tier == 'quick' else 6
    jobs = [(r, C.seed() + k) for r in recs for k in range(reps)]
    for (r, _), o in C.parallel_imap(check_pair, jobs, chunksize=4):
        chk.case(dict(r=r, i=o['info']), len(r['chain']) >= 2 or r['kind'] == 'extend', sample=o['info'])
        chk.traces += 1
        if o['exc']:
            chk.violation(dict(kind='exception', exc=o['exc'].split('(')[0]), dict(pair=r, info=o['info'], exc=o['exc']))
        for mm in o['mism']:
            chk.violation(dict(kind=mm['what'], boundary=mm.get('boundary')), dict(pair=r, setup=o['info'], info=mm))
    lj = [(n, x, y, C.seed()) for n in sorted(antennas()) for x, y in ((0, 0), (-8.0, 3.0))]
    for j, o in zip(lj, C.parallel_map(limit_case, lj, chunksize=1)):
        chk.case('limit/%s/%s' % (j[0], j[1]), True)
        if o['exc']:
            chk.violation(dict(kind='exception', exc=o['exc'].split('(')[0]), dict(case=j[:3], exc=o['exc']))
        for mm in o['mism']:
            chk.violation(dict(kind=mm['what'], antenna=j[0]), dict(case=j[:3], info=mm))
    return chk.finish(
        rule='one case per (chain, variant) pair of Media.tla and seed (antenna, position, boundary type, radials, direction '
             'sector drawn per case); non-trivial = at least two media or an extension; plus the high-conductivity limit per antenna')


def replay(path):
    d = json.load(open(path))['detail']
    print(json.dumps(d, indent=1, default=str)[:2500])
    return 1
