"""C12 -- number and placement of current unknowns follow from the wire topology.

TLC checks CountFormula, ObjectOrder, SegJoint, JoinedIffSamePoint,
JunctionCount on every configuration of spec/Topology.tla and dumps every
final state; each is replayed into the real code (point ids concretised to
coordinates: exact, jittered below the matching tolerance, near-miss above
it) and the real pulse table, end_segs, per-object pulse lists and the
ANTENNA GEOMETRY text are compared with the specification's prediction.
The count formula, gap-free numbering and the geometric joint condition are
additionally evaluated directly on the real object.
"""
import os, sys, json, random
import numpy as np
from . import common as C
from . import topo as T
from . import report as R

PID = 'C12'
INVS = ['CountFormula', 'ObjectOrder', 'SegJoint', 'JoinedIffSamePoint',
        'JunctionCount']


def count_formula(inp, ground):
    """the property's formula evaluated on the abstract input alone"""
    n = sum(o['ns'] - 1 for o in inp)
    ends = {}
    for o in inp:
        for p in (o['p1'], o['p2']):
            if ground and p > 100:
                n += 1
            else:
                ends[p] = ends.get(p, 0) + 1
    n += sum(k - 1 for k in ends.values())
    return n


def geometric_joints(m, tol_rel=1e-6):
    """each pulse sits on a joint shared by its two segments (coordinates)"""
    bad = []
    for p in m.pulses:
        sa, sb = p.segs
        L = max(sa.seg_len, sb.seg_len)
        if p.ground.any():
            ok = abs(p.point[2]) <= tol_rel * L and sa is sb
        else:
            # the pulse point must be an end of both segments
            da = min(np.linalg.norm(p.point - sa.p1), np.linalg.norm(p.point - sa.p2))
            db = min(np.linalg.norm(p.point - sb.p1), np.linalg.norm(p.point - sb.p2))
            ok = da <= 2e-3 * L and db <= 2e-3 * L
        if not ok:
            bad.append(int(p.idx))
    return bad


def check_record(args):
    rec, ground, mode, sd = args
    inp = rec['input']
    rnd = random.Random('%s/%s' % (sd, C.h(inp)))
    out = dict(mism=[], exc=None, mode=mode)
    try:
        if mode == 'exact':
            conc = T.Concretiser()
        elif mode == 'jitter':
            conc = T.Concretiser(rnd, jitter=1e-5)
        elif mode == 'low-junction':
            conc = LowJunction(rnd, inp)
            if conc.low is None:
                return out
        else:
            conc = NearMiss(rnd, inp, diag=(mode == 'nearmiss-diag'))
        if rec.get('reject'):
            try:
                T.build(inp, ground, conc)
                out['mism'].append('accepted-but-spec-rejects')
            except ValueError:
                if rec.get('assertion'):
                    out['mism'].append('diagnosed-but-spec-says-assertion')
            except AssertionError:
                # the faithful specification predicts this AssertionError (closed curve ending on a
                # point where an earlier object ends); the property is violated all the same
                out['mism'].append('assertion-closed-curve-on-earlier-end' if rec.get('assertion')
                                   else 'assertion-unexpected')
            return out
        m = T.build(inp, ground, conc)
    except Exception as e:           # noqa
        out['exc'] = repr(e)
        return out
    pr = T.project(m)
    exp_p = T.spec_pulses(rec)
    if pr['pulses'] != exp_p:
        out['mism'].append('pulses')
    if pr['endSegs'] != rec['endSegs']:
        out['mism'].append('endSegs')
    if pr['opulses'] != rec['opulses']:
        out['mism'].append('opulses')
    if [o['tag'] for o in pr['objs']] != [o['tag'] for o in rec['objs']]:
        out['mism'].append('tags')
    # the property's own statements, on the real object
    if len(m.pulses) != count_formula(inp, ground):
        out['mism'].append('count-formula')
    if [int(p.idx) for p in m.pulses] != list(range(len(m.pulses))):
        out['mism'].append('numbering')
    owners = [int(p.geobj.n) for p in m.pulses]
    if owners != sorted(owners):
        out['mism'].append('object-order')
    if geometric_joints(m):
        out['mism'].append('joint-geometry')
    # the text of the report
    try:
        geom, wconn, wtags, nseg = T.report_geometry(m)
        nos = [r[2] for b in geom for r in b['rows']]
        if nos != list(range(1, len(m.pulses) + 1)):
            out['mism'].append('report-numbering')
        exp_rows = []
        for o, lst in enumerate(rec['opulses']):
            exp_rows.append([(rec['geom'][q][0], rec['geom'][q][1], q + 1) for q in lst])
        if [b['rows'] for b in geom] != exp_rows:
            out['mism'].append('report-geometry-rows')
        if [b['empty'] for b in geom] != [es == [-1, -1] for es in rec['endSegs']]:
            out['mism'].append('report-empty-marker')
        if [list(x) for x in wconn] != rec['wconn']:
            out['mism'].append('report-wire-conn')
        if wtags != [o['tag'] for o in rec['objs']]:
            out['mism'].append('report-tags')
    except R.ReportError as e:
        out['mism'].append('report-grammar:%s' % e)
    return out


class NearMiss(T.Concretiser):
    """two distinct free point ids are placed 3 matching tolerances apart
       (must NOT be joined); same ids jittered by 0.3 tolerances"""

    def __init__(self, rnd, inp, diag=False):
        super().__init__(rnd, jitter=0.0, scale=1.0)
        free = sorted({p for o in inp for p in (o['p1'], o['p2']) if p < 100})
        direct = {frozenset((o['p1'], o['p2'])) for o in inp}
        pairs = [(a, b) for a in free for b in free
                 if a < b and frozenset((a, b)) not in direct]
        self.pair = rnd.choice(pairs) if pairs else None
        # shortest segment with the generic layout
        base = T.Concretiser.base
        alias = {self.pair[1]: self.pair[0]} if self.pair else {}
        def L(o):
            # lengths with the moved point sitting on its partner
            a = np.array(base(self, alias.get(o['p1'], o['p1'])))
            b = np.array(base(self, alias.get(o['p2'], o['p2'])))
            return np.linalg.norm(a - b) / o['ns']
        self.tol = 1e-3 * min(L(o) for o in inp)
        if diag:
            # just above the tolerance along a space diagonal: every single
            # coordinate differs by less than the tolerance, the distance not
            self.jit = 0.01 * self.tol / np.sqrt(3)
            d = np.array([rnd.choice((-1.0, 1.0)) for _ in range(3)])
            self.off = d / np.linalg.norm(d) * 1.25 * self.tol
        else:
            self.jit = 0.3 * self.tol / np.sqrt(3)
            d = np.array([rnd.uniform(-1, 1) for _ in range(3)])
            self.off = d / np.linalg.norm(d) * 3 * self.tol

    def base(self, pid):
        if self.pair and pid == self.pair[1]:
            b = T.Concretiser.base(self, self.pair[0])
            return tuple(b[k] + self.off[k] for k in range(3))
        return T.Concretiser.base(self, pid)

    def point(self, pid, first):
        b = self.base(pid)
        if first or pid > 100:
            return b
        return tuple(b[k] + self.rnd.uniform(-self.jit, self.jit) for k in range(3))


def jobs(chk, tier):
    sd = C.seed()
    for r, g, cfg in T.records(chk, tier, INVS, runs=T.deep_runs(tier)):
        yield (r, g, 'exact', sd)
        if r.get('reject') and not r.get('assertion'):
            continue
        if not r.get('reject'):
            yield (r, g, 'jitter', sd)
            if len(r['input']) >= 2:
                yield (r, g, 'nearmiss', sd)
                yield (r, g, 'nearmiss-diag', sd)
                if not any(o.get('kind') == 'A' for o in r['input']):
                    yield (r, g, 'low-junction', sd)


class LowJunction(T.Concretiser):
    """a junction point (free point id with >= 2 ends) lies 1.5 matching tolerances above z = 0:
       it is NOT on the ground plane, its ends are joined and nothing is snapped"""

    def __init__(self, rnd, inp):
        super().__init__(rnd, jitter=0.0, scale=1.0)
        cnt = {}
        for o in inp:
            for p in (o['p1'], o['p2']):
                if p < 100:
                    cnt[p] = cnt.get(p, 0) + 1
        cands = sorted(p for p, c in cnt.items() if c >= 2)
        self.low = rnd.choice(cands) if cands else None
        base = T.Concretiser.base
        if self.low is not None:
            def L(o):
                pts = []
                for pid in (o['p1'], o['p2']):
                    b = np.array(base(self, pid))
                    if pid == self.low:
                        b[2] = 0.0
                    pts.append(b)
                return np.linalg.norm(pts[0] - pts[1]) / o['ns']
            self.tol = 1e-3 * min(L(o) for o in inp)

    def base(self, pid):
        b = T.Concretiser.base(self, pid)
        if pid == self.low:
            return (b[0], b[1], 1.5 * self.tol)
        return b


def tapered_tolerance_cases():
    """the matching tolerance is 1/1000 of the SHORTEST segment also when the first segment of an
       object is not its shortest (wire tapered from end 2 or from both ends, radius-tapered helix)"""
    from mininec.mininec import Mininec, Wire, Helix
    bad = []
    n = 0
    for st in (2, 3, 1):
        a = Wire(7, 0, 0, 10, 14, 0, 10, 0.001)
        a.segtype = st
        m0 = Mininec(10.0, [a])
        lens = [s.seg_len for s in m0.geo[0].segments]
        smin, sfirst, slast = min(lens), lens[0], lens[-1]
        # end of the wire where the other wire is attached: end 2 for st 2/3, end 1 for st 1
        for factor, joined in ((0.4, True), (1.6, False)):
            d = factor * 1e-3 * smin
            if st == 1:
                start = (0.0, d, 10.0)
            else:
                start = (14.0, d, 10.0)
            a = Wire(7, 0, 0, 10, 14, 0, 10, 0.001)
            a.segtype = st
            b = Wire(3, start[0], start[1], start[2], start[0], start[1] + 9.0, 13.0, 0.001)
            m = Mininec(10.0, [a, b])
            want = 6 + 2 + (1 if joined else 0)
            n += 1
            if len(m.pulses) != want:
                bad.append(dict(what='tapered-matching-tolerance', segtype=st, distance_over_tol=factor,
                                pulses=len(m.pulses), want=want,
                                first_segment_is_shortest=abs(sfirst - smin) < 1e-12))
    return bad, n


def project_input(m):
    """abstract object list of a real model: end points clustered into point ids by the property's
       own predicate (closer than 1/1000 of the shortest segment), grounded ends get ground ids.
       Returns None for shapes the specification does not model (self-closed or doubly grounded curves)."""
    tol = 1e-3 * m.min_seglen
    reps = []
    inp = []
    ng = 0
    for g in m.geo:
        ids = []
        for e in (0, 1):
            pt = np.array(g.endpoints[e], float)
            if m.media is not None and abs(pt[2]) < tol:
                ng += 1
                ids.append(100 + ng)
                continue
            for k, r in enumerate(reps):
                if np.linalg.norm(r - pt) <= tol:
                    ids.append(k + 1)
                    break
            else:
                reps.append(pt)
                ids.append(len(reps))
        if ids[0] == ids[1] or (ids[0] > 100 and ids[1] > 100):
            return None
        inp.append(dict(p1=ids[0], p2=ids[1], ns=int(g.n_segments), tag=int(g.tag)))
    if len(reps) > 99:
        return None
    return inp


def real_model_binding(chk):
    """code -> spec: the repository's own models (test/*.pym) are projected to abstract object lists,
       run through spec/TopologyOn.tla (every Topology invariant is evaluated on them) and the
       specification's pulse table is compared with the real one"""
    import glob, os, io, contextlib
    from mininec.mininec import main, Mininec
    models = []
    for f in sorted(glob.glob(os.path.join(C.REPO, 'test', '*.pym'))):
        args = ' '.join(l for l in open(f) if not l.startswith('#')).split()
        out, err = io.StringIO(), io.StringIO()
        try:
            with contextlib.redirect_stdout(out), contextlib.redirect_stderr(err):
                m = main(args, f_err=err, return_mininec=True)
        except SystemExit:
            continue
        except Exception as e:      # noqa -- a stored model of the repository that the program cannot build
            chk.violation(dict(kind='real-model-cannot-be-built', exc=type(e).__name__), dict(model=os.path.basename(f), exc=repr(e)))
            continue
        if not isinstance(m, Mininec):
            continue
        inp = project_input(m)
        if inp is None:
            chk.skip('real model with a shape outside the specification (closed or doubly grounded curve)')
            continue
        models.append((os.path.basename(f), m, inp))
    for ground in (True, False):
        sel = [x for x in models if (x[1].media is not None) == ground]
        if not sel:
            continue
        try:
            recs = T.spec_records(chk, [x[2] for x in sel], ground, name='c12-real-%s' % ground)
        except C.SpecViolation as e:
            # the projection of a REAL model violates an invariant of the specification
            chk.violation(dict(kind='real-model-violates-spec-invariant', invariant=e.invariant),
                          dict(models=[x[0] for x in sel], ground=ground))
            continue
        for (name, m, inp), rec in zip(sel, recs):
            chk.case('real/' + name, len(inp) >= 2, sample=dict(model=name, objects=len(inp), pulses=len(m.pulses)))
            chk.traces += 1
            if rec.get('reject'):
                chk.violation(dict(kind='real-model-rejected-by-spec', model=name), dict(model=name, input=inp))
                continue
            pr = T.project(m)
            for fld, a, b in (('pulses', pr['pulses'], T.spec_pulses(rec)), ('endSegs', pr['endSegs'], rec['endSegs']),
                              ('opulses', pr['opulses'], rec['opulses'])):
                if a != b:
                    chk.violation(dict(kind='real-model-mismatch', field=fld, model=name),
                                  dict(model=name, input=inp, field=fld))
            if len(m.pulses) != count_formula(inp, ground):
                chk.violation(dict(kind='real-model-count-formula', model=name), dict(model=name, input=inp))
    chk.cov['real_models_validated'] = len(models)


def run(tier):
    chk = C.Check(PID, tier, 'model_checking')
    chk.assumptions = [
        'TLC 1.8 explores spec/Topology.tla exhaustively (or by simulation, as listed in tlc_runs) for the constants of the listed configs',
        'point ids of the spec are concretised by harness/topo.py: equal ids closer than 0.4 matching tolerances, distinct ids at least 3 tolerances apart',
        'wires only (arcs/helices share Geobj.compute_connections); equal segmentation']
    for (r, g, mode, _), o in C.parallel_imap(check_record, jobs(chk, tier)):
        inp = r['input']
        nontrivial = len(inp) >= 2 and not r.get('reject')
        chk.case(dict(i=inp, g=g, m=mode), nontrivial,
                 sample=dict(input=inp, ground=g, mode=mode,
                             npulses=len(r.get('pulses', []))))
        chk.traces += 1
        if o['exc']:
            chk.violation(dict(kind='exception', mode=mode, exc=o['exc'].split('(')[0]),
                          dict(input=inp, ground=g, exc=o['exc'], spec=r, mode=mode))
        for mm in o['mism']:
            chk.violation(dict(kind='mismatch', field=mm.split(':')[0], mode=mode),
                          dict(input=inp, ground=g, mode=mode, field=mm, spec=r))
    real_model_binding(chk)
    tb, tn = tapered_tolerance_cases()
    chk.case('tapered-tolerance', True, n=tn)
    for b in tb:
        chk.violation(dict(kind=b['what'], segtype=b['segtype']), b)
    return chk.finish(
        rule='every final state printed by the TLC runs is one case per concretisation mode (exact, '
             'jitter below the matching tolerance, near-miss above it); non-trivial = at least two '
             'objects and accepted; distinct by hash of (abstract input, ground, mode)',
        exhaustive=False)


def replay(path):
    d = json.load(open(path))['detail']
    out = check_record((d['spec'], d['ground'], d.get('mode', 'exact'), C.seed()))
    print(json.dumps(out, indent=1))
    return 1 if (out['mism'] or out['exc']) else 0
