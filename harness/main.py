"""Entry point: bin/check <ID> [--tier quick|thorough] [--replay FILE]"""
import sys, os, argparse, importlib, traceback
from . import common as C


def main(argv=None):
    ap = argparse.ArgumentParser()
    ap.add_argument('pid')
    ap.add_argument('--tier', default=os.environ.get('VERIF_TIER', 'quick'),
                    choices=['quick', 'thorough'])
    ap.add_argument('--replay')
    a = ap.parse_args(argv)
    pid = a.pid.upper()
    try:
        mod = importlib.import_module('harness.' + pid.lower())
    except ImportError as e:
        print('no check for %s: %s' % (pid, e))
        return 2
    try:
        if a.replay:
            return mod.replay(a.replay)
        return mod.run(a.tier)
    except C.Machinery as e:
        print('MACHINERY FAILURE %s: %s' % (pid, e))
        return 2
    except Exception:
        traceback.print_exc()
        print('MACHINERY FAILURE %s: unexpected exception' % pid)
        return 2


if __name__ == '__main__':
    sys.exit(main())
