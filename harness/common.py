"""Shared machinery: TLC runner, evidence writer, known findings, verdicts.

Exit codes of every check: 0 = property held on everything explored (known
findings are reported as KNOWN-FINDING lines), 1 = violation (a line
"VIOLATION property=<id> replay=<path>" is printed), 2 = machinery failure.
"""
import os, sys, json, re, time, hashlib, subprocess, shutil, random

ROOT = os.path.dirname(os.path.dirname(os.path.abspath(__file__)))
REPO = os.environ.get('VERIF_REPO', '/repo')
SPEC = os.path.join(ROOT, 'spec')
WORK = os.environ.get('VERIF_WORK') or os.path.join(ROOT, 'work')
EVID = os.path.join(ROOT, 'evidence')
REPL = os.environ.get('VERIF_REPL') or os.path.join(ROOT, 'replays')
NCPU = int(os.environ.get('VERIF_CPUS', os.cpu_count() or 4))
TLA_JAR = '/opt/veriftools/tla/tla2tools.jar'
TLA_CP = TLA_JAR + ':/opt/veriftools/tla/CommunityModules-deps.jar'


class Machinery(Exception):
    """Raised when the checking machinery itself fails (exit 2)."""


class SpecViolation(Machinery):
    """A specification invariant is violated on an object list GIVEN to the specification.  For lists the harness
       constructed this is a machinery failure (default); callers that give projections of REAL models catch it and
       report the violation of the property."""

    def __init__(self, invariant, name):
        super().__init__('Topology invariant %s violated on a given object list (%s)' % (invariant, name))
        self.invariant = invariant


def seed():
    try:
        return int(os.environ.get('VERIF_SEED', '0'))
    except ValueError:
        return 0


def rng(salt=''):
    return random.Random('%s/%s' % (seed(), salt))


_created = []
_main_pid = os.getpid()


def _cleanup():
    # the dumps of TLC (up to gigabytes in the thorough tier) are of no use once the run is over; VERIF_KEEP=1 keeps them
    if os.getpid() == _main_pid and not os.environ.get('VERIF_KEEP'):
        for d in _created:
            shutil.rmtree(d, ignore_errors=True)


import atexit
atexit.register(_cleanup)


def workdir(name):
    d = os.path.join(WORK, name)
    shutil.rmtree(d, ignore_errors=True)
    os.makedirs(d, exist_ok=True)
    if os.getpid() == _main_pid:
        _created.append(d)
    return d


def h(obj):
    return hashlib.sha1(json.dumps(obj, sort_keys=True, default=str)
                        .encode()).hexdigest()[:12]


def pick(key, frac, salt=''):
    """seeded yes/no for an item, from its CONTENT (not from its position in a stream: the order in which TLC prints
       states varies from run to run with several workers)"""
    return int(h([seed(), salt, key]), 16) % 100000 < frac * 100000


# --------------------------------------------------------------------- TLC

class TLCResult:
    """Result of a TLC run; the (possibly huge) output stays in a file and
       the PrintT records are streamed from it."""

    def __init__(self, path, rc, wall):
        self.path = path
        self.rc = rc
        self.wall = wall
        keep = []
        self.nprinted = 0
        with open(path, errors='replace') as f:
            for line in f:
                if line.startswith('"'):
                    self.nprinted += 1
                    continue
                if len(keep) < 4000:
                    keep.append(line)
                else:
                    keep = keep[:2000] + keep[-1999:] + [line]
        out = self.out = ''.join(keep)
        m = re.findall(r'(\d+) states generated, (\d+) distinct states found',
                       out)
        self.generated = int(m[-1][0]) if m else 0
        self.distinct = int(m[-1][1]) if m else 0
        m = re.search(r'The number of states generated: (\d+)', out)
        self.simulated = int(m.group(1)) if m else 0
        if self.simulated and not self.generated:
            self.generated = self.simulated
        self.ok = (('Model checking completed. No error has been found' in out
                    or 'Finished in' in out) and 'Error:' not in out)
        v = re.search(r'Error: Invariant (\S+) is violated', out)
        if not v:
            v = re.search(r'Error: Action property (\S+) is violated', out)
        self.violated = v.group(1) if v else None
        self.depth = 0
        m = re.search(r'The depth of the complete state graph search is (\d+)',
                      out)
        if m:
            self.depth = int(m.group(1))

    def printed(self, dedupe=True):
        """Generator over the records printed with PrintT(ToJson(..))."""
        seen = set()
        with open(self.path, errors='replace') as f:
            for line in f:
                if not line.startswith('"'):
                    continue
                line = line.rstrip('\n')
                if not line.endswith('"'):
                    continue
                if dedupe:
                    k = hashlib.sha1(line.encode()).digest()[:10]
                    if k in seen:
                        continue
                    seen.add(k)
                try:
                    yield json.loads(json.loads(line))
                except Exception:
                    continue


def tlc(module, cfg, name=None, workers=None, timeout=1800, extra=(),
        env=None, simulate=None, depth=None, must_finish=True, seed_=None):
    """Run TLC on spec/<module>.tla with spec/<cfg>; returns TLCResult.
       Raises Machinery when TLC crashes / is unparsable."""
    name = name or (module + '-' + os.path.splitext(os.path.basename(cfg))[0])
    wd = workdir('tlc-' + name)
    jtmp = os.path.join(wd, 'jtmp')          # SANY unpacks library modules into java.io.tmpdir: keep /tmp clean
    os.makedirs(jtmp, exist_ok=True)
    cmd = ['java', '-XX:+UseParallelGC', '-Xmx12g', '-Djava.io.tmpdir=' + jtmp, '-cp', TLA_CP,
           'tlc2.TLC', '-workers', str(workers or NCPU), '-metadir',
           os.path.join(wd, 'meta'), '-noGenerateSpecTE', '-config',
           os.path.join(SPEC, cfg)]
    if simulate:
        cmd += ['-simulate', simulate]
        cmd += ['-seed', str(seed() if seed_ is None else seed_)]
    if depth:
        cmd += ['-depth', str(depth)]
    cmd += list(extra)
    cmd += [os.path.join(SPEC, module + '.tla')]
    e = dict(os.environ)
    if env:
        e.update(env)
    t0 = time.time()
    outp = os.path.join(wd, 'tlc.out')
    rc = 0
    with open(outp, 'w') as fo:
        try:
            p = subprocess.run(cmd, cwd=wd, env=e, stdout=fo,
                               stderr=subprocess.STDOUT, timeout=timeout)
            rc = p.returncode
        except subprocess.TimeoutExpired:
            rc = -9
            if must_finish:
                raise Machinery('TLC timeout on %s/%s' % (module, cfg))
    shutil.rmtree(os.path.join(wd, 'meta'), ignore_errors=True)
    shutil.rmtree(jtmp, ignore_errors=True)
    res = TLCResult(outp, rc, time.time() - t0)
    out = res.out
    if ('Parsing or semantic analysis failed' in out or
            'TLC threw an unexpected exception' in out or
            ('Error:' in out and res.generated == 0 and not res.violated)):
        raise Machinery('TLC failed on %s/%s:\n%s' % (module, cfg, out[-3000:]))
    return res


def apalache(module, cinit, init, inv, length, name, timeout=900):
    """apalache-mc check on spec/<module>.tla; returns 'ok' | 'violated'; Machinery on anything else"""
    wd = workdir('apa-' + name)
    cmd = ['apalache-mc', 'check', '--cinit=' + cinit, '--init=' + init, '--inv=' + inv, '--length=%d' % length,
           '--out-dir=' + os.path.join(wd, 'out'), os.path.join(SPEC, module + '.tla')]
    try:
        jtmp = os.path.join(wd, 'jtmp')
        os.makedirs(jtmp, exist_ok=True)
        p = subprocess.run(cmd, cwd=wd, capture_output=True, text=True, timeout=timeout,
                           env=dict(os.environ, JAVA_IO_TMPDIR=jtmp, TMPDIR=jtmp))
    except subprocess.TimeoutExpired:
        raise Machinery('Apalache timeout on %s (%s)' % (module, name))
    finally:
        shutil.rmtree(os.path.join(wd, 'out'), ignore_errors=True)
    out = p.stdout + p.stderr
    if 'The outcome is: NoError' in out:
        return 'ok'
    if 'The outcome is: Error' in out and 'invariant' in out and 'violated' in out:
        return 'violated'
    raise Machinery('Apalache failed on %s (%s): %s' % (module, name, out[-1500:]))


# ------------------------------------------------------------ known findings

def known_findings(pid):
    p = os.path.join(ROOT, 'known_findings.json')
    if not os.path.exists(p):
        return []
    data = json.load(open(p))
    return [f for f in data.get('findings', [])
            if f['property'] == pid and f.get('status', 'open') == 'open']


# ----------------------------------------------------------------- verdicts

class Check:
    """Collects coverage and violations for one property run."""

    def __init__(self, pid, tier, level):
        self.pid = pid
        self.tier = tier
        self.level = level
        self.t0 = time.time()
        self.evaluations = 0
        self.nontrivial = set()
        self.samples = []
        self.violations = []      # (signature, replay dict)
        self.known_hit = {}       # finding id -> count
        self.cov = {}
        self.assumptions = []
        self.findings = known_findings(pid)
        self.states = 0
        self.transitions = 0
        self.traces = 0
        self.skipped = {}
        # replay files of earlier runs of this property are stale
        import glob
        for f in glob.glob(os.path.join(REPL, pid + '-*.json')):
            try:
                os.remove(f)
            except OSError:
                pass

    # coverage ----------------------------------------------------------
    def add_tlc(self, res):
        self.states += res.distinct
        self.transitions += res.generated

    def case(self, key, nontrivial=True, sample=None, n=1):
        self.evaluations += n
        if nontrivial:
            self.nontrivial.add(key if isinstance(key, str) else h(key))
        if sample is not None and len(self.samples) < 6 and \
                (nontrivial or self.evaluations > 200):
            self.samples.append(sample)

    def skip(self, why, n=1):
        self.skipped[why] = self.skipped.get(why, 0) + n

    # violations --------------------------------------------------------
    def violation(self, signature, detail):
        """signature: dict of discrete facts identifying *what* fails.
           Matched against known findings (all keys of finding['match']
           must equal the signature's)."""
        for f in self.findings:
            if all(_match(signature.get(k), v) for k, v in f['match'].items()):
                self.known_hit.setdefault(f['id'], [f, 0])[1] += 1
                return False
        self.violations.append((signature, detail))
        return True

    # finishing ---------------------------------------------------------
    def finish(self, rule, explanation=None, exhaustive=False, extra=None):
        os.makedirs(EVID, exist_ok=True)
        os.makedirs(REPL, exist_ok=True)
        for fid, (f, n) in sorted(self.known_hit.items()):
            print('KNOWN-FINDING: property=%s %s [%s; %d case(s) this run]'
                  % (self.pid, f['what'], fid, n))
        rc = 0
        seen = set()
        for sig, detail in self.violations:
            key = h(sig)
            if key in seen:
                continue
            seen.add(key)
            path = os.path.join(REPL, '%s-%s.json' % (self.pid, key))
            with open(path, 'w') as fp:
                json.dump(dict(property=self.pid, signature=sig, detail=detail),
                          fp, indent=1, default=str)
            if len(seen) <= 20:
                print('VIOLATION property=%s replay=%s' % (self.pid, path))
                print('  ' + json.dumps(sig, default=str)[:400])
            rc = 1
        cov = dict(evaluations=int(self.evaluations),
                   distinct_nontrivial=len(self.nontrivial),
                   rule=rule, samples=self.samples[:6] or ['(none)'],
                   exhaustive=bool(exhaustive))
        if self.states:
            cov['states'] = int(self.states)
            cov['transitions'] = int(self.transitions)
            cov['traces_validated_against_impl'] = int(self.traces)
        if explanation:
            cov['explanation'] = explanation
        if self.skipped:
            cov['skipped'] = self.skipped
        cov['known_findings_hit'] = {k: v[1] for k, v in self.known_hit.items()}
        cov.update(self.cov)
        if extra:
            cov.update(extra)
        ev = dict(property_id=self.pid, tier=self.tier, seed=seed(),
                  level=self.level, coverage=cov,
                  assumptions=self.assumptions,
                  wall_s=round(time.time() - self.t0, 2),
                  violations=len(seen))
        path = os.path.join(EVID, self.pid + '.json')
        if os.environ.get('VERIF_NOEVIDENCE'):
            path = os.path.join(WORK, 'evidence-' + self.pid + '.json')
            os.makedirs(WORK, exist_ok=True)
        with open(path, 'w') as fp:
            json.dump(ev, fp, indent=1, default=str)
        print('%s %s: evaluations=%d nontrivial=%d states=%d traces=%d '
              'violations=%d known=%d wall=%.1fs'
              % (self.pid, self.tier, self.evaluations, len(self.nontrivial),
                 self.states, self.traces, len(seen), len(self.known_hit),
                 time.time() - self.t0))
        return rc


def _match(value, pattern):
    """known-finding matcher: equality, or {"re": regex} (full match on str)"""
    if isinstance(pattern, dict) and 're' in pattern:
        return value is not None and re.fullmatch(pattern['re'], str(value)) is not None
    return value == pattern


def parallel_map(fn, items, procs=None, chunksize=None):
    """fork-based map over items; fn must be a top-level function."""
    import multiprocessing as mp
    items = list(items)
    procs = min(procs or NCPU, max(1, len(items)))
    if procs <= 1 or len(items) < 4:
        return [fn(x) for x in items]
    ctx = mp.get_context('fork')
    with ctx.Pool(procs) as pool:
        return pool.map(fn, items,
                        chunksize or max(1, len(items) // (procs * 8)))


def parallel_imap(fn, items, procs=None, chunksize=64):
    """fork-based streaming map: yields (item, fn(item)) in arbitrary order;
       items may be a generator (not materialised)."""
    import multiprocessing as mp
    procs = procs or NCPU
    if procs <= 1:
        for x in items:
            yield x, fn(x)
        return
    ctx = mp.get_context('fork')
    with ctx.Pool(procs) as pool:
        for x, y in pool.imap_unordered(_Pair(fn), items, chunksize):
            yield x, y


class _Pair:
    def __init__(self, fn):
        self.fn = fn

    def __call__(self, x):
        return x, self.fn(x)
