"""C03 -- image theory: ideal ground equals free space plus mirrored antenna.

For grounded structures (vertical, sloping, bent, branched, wires grounded at
either end, several grounded wires, elevated wires) every order / direction
description of the ground model is paired with its free-space mirror model
(every wire duplicated at -z, grounded wires continued into their image at
the ground point; for vertical wires also the variant "one straight wire of
2n segments").  spec/TopologyOn.tla (TLC) gives the pulse tables of both and
the structural relation N_free = 2 N_ground - #ground pulses is checked on
them; the pulse correspondence (with sign) follows from the pulse positions
and directions.  Both models are solved for every feed pulse (ground pulses
included: 2 V on the plane pulse of the mirror model) and for two-source
sets; currents through the correspondence, feed impedances (half rule for
grounded feeds) and gain (+3.0103 dB) must agree within the tolerance of the
property (5e-4 / 0.01 dB, condition-number rule).
"""
import json, math, itertools, random
import numpy as np
from . import common as C
from . import topo as T
from . import describe as D
from mininec.mininec import Mininec, Wire, Excitation, Angle, ideal_ground

PID = 'C03'
LAM = 20.0
F = 299.8 / LAM
GROUNDED = {
    'monopole': (dict(G=(0, 0, 0), A=(0, 0, 0.2)), [('G', 'A', 4)]),
    'inv_l': (D.STRUCTURES['inv_l'][0], D.STRUCTURES['inv_l'][1]),
    'sloping': (D.STRUCTURES['sloping'][0], D.STRUCTURES['sloping'][1]),
    'two_grounded': (D.STRUCTURES['two_grounded'][0], D.STRUCTURES['two_grounded'][1]),
    'elevated_and_grounded': (D.STRUCTURES['elevated_and_grounded'][0], D.STRUCTURES['elevated_and_grounded'][1]),
    'sloping_branch': (dict(G=(0, 0, 0), A=(0.06, 0.03, 0.15), B=(0.2, 0.03, 0.17), C=(0.0, 0.14, 0.2)),
                       [('G', 'A', 3), ('A', 'B', 3), ('A', 'C', 3)]),
    # a mast 0.76 degrees out of plumb: NOT vertical (the fill shortcuts of vertical grounded wires do not apply)
    'leaning_mast': (dict(G=(0, 0, 0), A=(0.004, 0, 0.3)), [('G', 'A', 10)]),
    'horizontal_over_ground': (dict(A=(-0.12, 0, 0.1), B=(0.13, 0, 0.1)), [('A', 'B', 6)]),
    # the foot point height is zero only up to a (positive) rounding error
    'computed_zero_foot': (dict(G=(0.05, 0, (0.1 + 0.2 - 0.3) / 20.0), A=(0.05, 0.02, 0.17), B=(0.2, 0.02, 0.19)),
                           [('G', 'A', 3), ('A', 'B', 3)]),
}
TINY = 1e-9


def is_gnd(xyz):
    return abs(xyz[2]) < TINY
RADIUS = 3e-4


def tol_for(cond):
    if cond <= 1e3:
        return 5e-4
    if cond <= 1e5:
        return 5e-7 * cond
    return None


def gids(points):
    ids = {}
    nf = ng = 0
    for name, xyz in points.items():
        if is_gnd(xyz):
            ng += 1
            ids[name] = 100 + ng
        else:
            nf += 1
            ids[name] = nf
    return ids


def ground_input(points, wires, perm, dirs):
    ids = gids(points)
    inp, geo = [], []
    for w in perm:
        a, b, ns = wires[w]
        if dirs[w] < 0:
            a, b = b, a
        inp.append(dict(p1=ids[a], p2=ids[b], ns=ns, tag=0))
        geo.append((np.array(points[a], float), np.array(points[b], float), ns, taper_type(points, a, b)))
    return inp, geo


def taper_type(points, a, b):
    """segmentation type that tapers a grounded wire towards its free end (first and last segment
       differ, the ground pulse sits on the long segment), 0 for wires that do not touch the ground"""
    if is_gnd(points[a]):
        return 2
    if is_gnd(points[b]):
        return 1
    return 0


def mirror_input(points, wires, perm, dirs, straight=False):
    """free-space model: originals + images; ground points become ordinary points"""
    names = list(points)
    ids = {n: i + 1 for i, n in enumerate(names)}
    nid = len(names)
    for n in names:
        if not is_gnd(points[n]):
            nid += 1
            ids[n + "'"] = nid
        else:
            ids[n + "'"] = ids[n]
    coords = {}
    for n in names:
        c = np.array(points[n], float)
        if is_gnd(c):
            c[2] = 0.0              # the free-space model has the foot point exactly on the plane
        coords[ids[n]] = c
        coords[ids[n + "'"]] = c * np.array([1, 1, -1])
    inp, geo = [], []
    done_img = set()
    for w in perm:
        a, b, ns = wires[w]
        if dirs[w] < 0:
            a, b = b, a
        vertical = points[a][0] == points[b][0] and points[a][1] == points[b][1]
        touches = is_gnd(points[a]) or is_gnd(points[b])
        if straight and vertical and touches:
            # one straight wire of 2n segments through the plane
            top = b if is_gnd(points[a]) else a
            p, q = (top + "'", top) if is_gnd(points[a]) else (top, top + "'")
            inp.append(dict(p1=ids[p], p2=ids[q], ns=2 * ns, tag=0))
            geo.append((coords[ids[p]], coords[ids[q]], 2 * ns, 0))
            done_img.add(w)
        else:
            inp.append(dict(p1=ids[a], p2=ids[b], ns=ns, tag=0))
            geo.append((coords[ids[a]], coords[ids[b]], ns, taper_type(points, a, b)))
    for w in perm:
        if w in done_img:
            continue
        a, b, ns = wires[w]
        if dirs[w] < 0:
            a, b = b, a
        inp.append(dict(p1=ids[a + "'"], p2=ids[b + "'"], ns=ns, tag=0))
        geo.append((coords[ids[a + "'"]], coords[ids[b + "'"]], ns, taper_type(points, a, b)))
    return inp, geo


def build(geo, ground, taper=False):
    ws = []
    for a, b, ns, st in geo:
        w = Wire(ns, *(a * LAM), *(b * LAM), RADIUS * LAM)
        if taper and st:
            w.segtype = st
        ws.append(w)
    return Mininec(F, ws, media=[ideal_ground] if ground else None)


def pulse_dir(p, upper=None):
    """direction vector of the pulse current; for pulses on the plane of a free-space model the
       direction of the half lying in z > 0 (upper=True)"""
    v = [np.array(p.segs[h].dirvec) * p.dir_sgn[h] for h in range(2)]
    if p.ground.any():
        h = 1 if p.ground[0] else 0
        return np.array(p.segs[h].dirvec)
    if upper:
        mids = [p.point + 0.5 * (p.ends[h] - p.point) for h in range(2)]
        h = 0 if mids[0][2] > mids[1][2] else 1
        return v[h]
    return v[1]


def correspondence(mg, mf):
    """ground pulse -> (free pulse, sign, image free pulse or None, image sign)"""
    res = {}
    tol = 1e-6 * LAM

    def same(q, point, ends):
        if np.linalg.norm(q.point - point) >= tol:
            return False
        a = sorted([tuple(np.round(e, 6)) for e in q.ends])
        b = sorted([tuple(np.round(e, 6)) for e in ends])
        return a == b
    for p in mg.pulses:
        cand = [q for q in mf.pulses if same(q, p.point, p.ends)]
        if len(cand) != 1:
            return None
        q = cand[0]
        onplane = abs(p.point[2]) < tol
        tp = pulse_dir(p)
        tq = pulse_dir(q, upper=onplane)
        s = 1 if np.dot(tp, tq) > 0 else -1
        img = None
        si = 0
        if not onplane:
            flip = np.array([1, 1, -1])
            cand = [r for r in mf.pulses if same(r, p.point * flip, [e * flip for e in p.ends])]
            if len(cand) != 1:
                return None
            img = cand[0]
            want = tp * np.array([-1, -1, 1])
            si = 1 if np.dot(pulse_dir(img), want) > 0 else -1
        res[p.idx] = (q.idx, s, None if img is None else img.idx, si)
    return res


def check_case(args):
    name, perm, dirs, straight, sd = args[:5]
    taper = len(args) > 5 and args[5]
    out = dict(mism=[], exc=None, n=0, skipped=0, maxdev=0.0)
    try:
        points, wires = GROUNDED[name]
        gi, gg = ground_input(points, wires, perm, dirs)
        fi, fg = mirror_input(points, wires, perm, dirs, straight)
        mg0 = build(gg, True, taper)
        mf0 = build(fg, False, taper)
        cor = correspondence(mg0, mf0)
        if cor is None:
            out['mism'].append(dict(what='no-pulse-bijection'))
            return out
        ng = sum(1 for p in mg0.pulses if p.ground.any())
        if len(mf0.pulses) != 2 * len(mg0.pulses) - ng:
            out['mism'].append(dict(what='pulse-count-relation', free=len(mf0.pulses), ground=len(mg0.pulses), gp=ng))
        rnd = random.Random('%s/%s/%s/%s' % (sd, name, perm, dirs))
        N = len(mg0.pulses)
        feeds = [[(q, 1 + 0j)] for q in range(N)]
        for _ in range(2):
            a, b = rnd.sample(range(N), 2) if N >= 2 else (0, 0)
            feeds.append([(a, 1 + 0j), (b, complex(rnd.uniform(-1, 1), rnd.uniform(-1, 1)))])
        for fi, feed in enumerate(feeds):
            mg = build(gg, True, taper)
            mf = build(fg, False, taper)
            if fi % 2 == 1 and N >= 2:
                # lumped loads: Z on a pulse and on its mirror pulse; a load on a grounded pulse (between wire and
                # ground) is the series connection with its own image in the mirror model: 2 Z on the plane pulse.
                # The grounded pulse is loaded FIRST and another one after it.
                from mininec.mininec import Impedance_Load
                gp = [p for p in range(N) if mg.pulses[p].ground.any()]
                order_ = (gp[:1] + [p for p in range(N) if p not in gp[:1]])[:2]
                for k_, p in enumerate(order_):
                    z = [40 + 90j, 15 - 60j][k_]
                    mg.register_load(Impedance_Load(z), p)
                    fq_, s_, iq_, si_ = cor[p]
                    mf.register_load(Impedance_Load(z * (2 if mg.pulses[p].ground.any() else 1)), fq_)
                    if iq_ is not None:
                        mf.register_load(Impedance_Load(z), iq_)
            for q, v in feed:
                mg.register_source(Excitation(complex(v)), q)
                fq, s, iq, si = cor[q]
                grounded = mg.pulses[q].ground.any()
                mf.register_source(Excitation(complex(v) * s * (2 if grounded else 1)), fq)
                if iq is not None:
                    mf.register_source(Excitation(complex(v) * si), iq)
            mg.compute(); mf.compute()
            cond = max(np.linalg.cond(mg.Z), np.linalg.cond(mf.Z))
            tol = tol_for(cond)
            if tol is None:
                out['skipped'] += 1
                continue
            out['n'] += 1
            Ig, If = np.array(mg.current), np.array(mf.current)
            scale = np.abs(Ig).max()
            dev = max(abs(If[cor[p][0]] * cor[p][1] - Ig[p]) for p in range(N)) / scale
            out['maxdev'] = max(out['maxdev'], dev)
            gfeed = any(mg.pulses[q].ground.any() for q, _ in feed)
            if dev > tol:
                out['mism'].append(dict(what='currents', dev=float(dev), grounded_feed=gfeed, nsrc=len(feed)))
            for k, (q, v) in enumerate(feed):
                zg = mg.sources[k].impedance
                # the upper source of the mirror model
                zf = [s_ for s_ in mf.sources if s_.idx == cor[q][0]][0].impedance
                want = zf / 2 if mg.pulses[q].ground.any() else zf
                dz = abs(zg - want) / abs(want)
                out['maxdev'] = max(out['maxdev'], dz)
                if dz > tol:
                    out['mism'].append(dict(what='feed-impedance', dev=float(dz),
                                            grounded_feed=bool(mg.pulses[q].ground.any()), nsrc=len(feed)))
            zen, azi = Angle(5, 16, 6), Angle(0, 45, 8)
            mg.compute_far_field(zen, azi)
            mf.compute_far_field(zen, azi)
            g1, g2 = np.array(mg.far_field.gain)[..., 2], np.array(mf.far_field.gain)[..., 2]
            sel = (g1 > -60) & (g2 > -60)
            dg = np.abs(g1[sel] - g2[sel] - 3.0103).max(initial=0)
            if dg > 0.01 + 20 * math.log10(1 + tol) - 20 * math.log10(1 + 5e-4):
                out['mism'].append(dict(what='gain-not-3.0103dB-above-free-space', dev=float(dg), grounded_feed=gfeed))
    except Exception as e:      # noqa
        import traceback
        out['exc'] = repr(e) + traceback.format_exc()[-700:]
    return out


def run(tier):
    chk = C.Check(PID, tier, 'exploration')
    chk.assumptions = [
        'TLC 1.8 on spec/TopologyOn.tla checks all Topology invariants (count formula, junction structure) on the ground model and on the mirror model of every case; the relation N_free = 2 N_ground - #ground pulses is evaluated on the two records',
        'the pulse correspondence (with signs) is derived by the harness from pulse positions and directions of the two real models',
        'nine fixed grounded structures (one a mast half a degree out of plumb), every second feed set with lumped loads (the grounded pulse loaded first), (harness/c03.py) plus seeded random grounded trees of 2..4 wires (2 quick, 30 thorough), every wire order and direction choice, every single feed pulse and two seeded two-source sets per description; tolerance of the property with its condition-number rule']
    # besides the fixed list: seeded random grounded trees of 2 .. 4 wires (harness/describe.py)
    for k in range(2 if tier == 'quick' else 30):
        rs = random.Random('c03-structure/%s/%d' % (C.seed(), k))
        pts, ws, _ = D.random_structure(rs, ground=True)
        GROUNDED['random-%s-%d' % (C.seed(), k)] = (pts, ws)
    cases = []
    for name, (points, wires) in sorted(GROUNDED.items()):
        n = len(wires)
        perms = list(itertools.permutations(range(n)))
        if tier == 'quick':
            perms = perms[:2]
        elif name.startswith('random'):
            perms = perms[:4]
        for perm in perms:
            for dirs in itertools.product((1, -1), repeat=n):
                cases.append((name, perm, dirs, False, C.seed()))
        cases.append((name, tuple(range(n)), (1,) * n, True, C.seed()))
        cases.append((name, tuple(range(n)), (-1,) * n, True, C.seed()))
        # grounded wires tapered towards their free end (unequal first / last segment)
        cases.append((name, tuple(range(n)), (1,) * n, False, C.seed(), True))
        cases.append((name, tuple(range(n)), (-1,) * n, False, C.seed(), True))
    # specification records for both models of every case
    gin = [ground_input(*GROUNDED[c[0]], c[1], c[2])[0] for c in cases]
    fin = [mirror_input(*GROUNDED[c[0]], c[1], c[2], c[3])[0] for c in cases]
    grec = T.spec_records(chk, gin, True, name='c03-ground')
    frec = T.spec_records(chk, fin, False, name='c03-free')
    for c, rg, rf in zip(cases, grec, frec):
        ngp = sum(1 for p in rg['pulses'] if p['kind'] in ('G1', 'G2'))
        if len(rf['pulses']) != 2 * len(rg['pulses']) - ngp:
            chk.violation(dict(kind='spec-pulse-count-relation', structure=c[0]), dict(case=c[:4]))
    outs = C.parallel_map(check_case, cases, chunksize=1)
    for c, o in zip(cases, outs):
        chk.case(dict(c=list(c[:4]) + [len(c) > 5]), True, sample=dict(structure=c[0], order=c[1], directions=c[2],
                                                  straight_variant=c[3], tapered=len(c) > 5, feeds=o['n'], max_deviation=o['maxdev']),
                 n=max(1, o['n']))
        chk.traces += 1
        if o['skipped']:
            chk.skip('condition number above 1e5', o['skipped'])
        if o['exc']:
            chk.violation(dict(kind='exception', structure=c[0], exc=o['exc'].split('(')[0]), dict(case=c[:4], exc=o['exc']))
        for mm in o['mism']:
            chk.violation(dict(kind=mm['what'], structure=c[0], grounded_feed=mm.get('grounded_feed')),
                          dict(case=c[:4], tapered=len(c) > 5, info=mm))
    return chk.finish(
        rule='one case per (structure, wire order, direction choice, mirror variant); evaluations = feed sets solved on both '
             'models (every single pulse incl. ground pulses, two two-source sets); every case is non-trivial')


def replay(path):
    d = json.load(open(path))['detail']
    c = d['case']
    o = check_case((c[0], tuple(c[1]), tuple(c[2]), c[3], C.seed()) + ((True,) if d.get('tapered') else ()))
    print(json.dumps(o, indent=1, default=str))
    return 1 if (o['mism'] or o['exc']) else 0
