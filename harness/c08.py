"""C08 -- loads act as the series circuit elements they describe.

spec/Circuit.tla gives, for every configuration, the load weight of every
pulse (2 on grounded ends) and the conductor halves of every pulse (the image
half of a grounded pulse is not conductor).  Replay on the real object:
 (A) with Z := 0, compute_impedance_matrix_loads() must put exactly
     -j/m * weight * Z_closed_form on the diagonal of every loaded pulse (loads
     on one pulse add, nothing off the diagonal) for every load kind, every
     attachment form, R/L/C over 12 decades and 0.1 .. 1000 MHz; the closed
     forms (series RLC, trap, Laplace ratio, Bessel skin-effect impedance per
     length, insulation inductance per length, times the conductor length of
     the pulse) are evaluated independently by the harness;
 (B) solved: a lumped load on the feed pulse raises the feed impedance by
     exactly Z_L (also on grounded ends), two loads on a pulse act as their
     sum, a zero load / eps_r = 1 / sigma -> 1e30 change nothing,
     conductivity and resistivity 1/sigma are interchangeable.
"""
import json, math, random
import numpy as np
from scipy.special import jve
from . import common as C
from . import topo as T
from .c07 import records, INVS as CIRC_INVS
from mininec.mininec import (Excitation, Impedance_Load, Series_RLC_Load, Trap_Load, Laplace_Load,
                             Skin_Effect_Load, Insulation_Load)

PID = 'C08'
MU0 = 4e-7 * math.pi
FREQS = [0.1, 7.0, 146.0, 1000.0]


def logu(rnd, lo, hi):
    return 10.0 ** rnd.uniform(lo, hi)


# ------------------------------------------------------------ closed forms (independent of the code)

def z_rlc(R, L, C_, f):
    s = 2j * math.pi * f * 1e6
    z = (R or 0.0) + s * (L or 0.0)
    if C_:
        z += 1.0 / (s * C_)
    return z


def z_trap(R, L, C_, f):
    s = 2j * math.pi * f * 1e6
    zl = R + s * L
    zc = 1.0 / (s * C_)
    return zl * zc / (zl + zc)


def z_laplace(a, b, f):
    s = 2j * math.pi * f * 1e6
    return sum(bk * s ** k for k, bk in enumerate(b)) / sum(ak * s ** k for k, ak in enumerate(a))


def zint_per_length(sigma, r, f):
    w = 2 * math.pi * f * 1e6
    k = np.sqrt(-1j * w * MU0 * sigma)
    kr = k * r
    return k / (2 * math.pi * r * sigma) * (jve(0, kr) / jve(1, kr)), abs(kr)


def zins_per_length(a, b, eps_r, f):
    w = 2 * math.pi * f * 1e6
    return 1j * w * MU0 / (2 * math.pi) * (eps_r - 1) / eps_r * math.log(b / a)


def seg_lengths(m):
    """length of segment (obj, k) of the REAL model, indexed as in the spec"""
    return {(g.n + 1, s.idx + 1): float(s.seg_len) for g in m.geo for s in g.segments}


def make_lumped(rnd, f):
    kind = rnd.choice(['Z', 'RLC', 'TRAP', 'LAP'])
    if kind == 'Z':
        z = complex(logu(rnd, -3, 5) * rnd.choice([1, 1, 0]), rnd.choice([-1, 1]) * logu(rnd, -3, 5))
        return Impedance_Load(z), z, kind
    if kind == 'RLC':
        R = rnd.choice([None, logu(rnd, -3, 6)])
        L = rnd.choice([None, logu(rnd, -12, 0)])
        C_ = rnd.choice([None, logu(rnd, -15, -3)])
        if R is None and L is None and C_ is None:
            R = 1.0
        # an element that is absent may also be written as an explicit zero (--rlc-load=50,2e-6,0)
        zero = lambda x: (rnd.choice([None, 0, 0.0]) if x is None else x)
        return Series_RLC_Load(R=zero(R), L=zero(L), C=zero(C_)), z_rlc(R, L, C_, f), kind
    if kind == 'TRAP':
        R, L, C_ = logu(rnd, -3, 3), logu(rnd, -9, -3), logu(rnd, -13, -7)
        return Trap_Load(R, L, C_), z_trap(R, L, C_, f), kind
    n = rnd.choice([0, 1, 2, 3])
    a = [logu(rnd, -2, 2)] + [logu(rnd, -9 * k - 2, -9 * k + 1) for k in range(1, n + 1)]
    b = [logu(rnd, -2, 3)] + [logu(rnd, -9 * k - 2, -9 * k + 2) for k in range(1, n + 1)]
    if rnd.random() < 0.5 and n:
        b = b[:rnd.randint(1, n)]
    return Laplace_Load(a=a, b=b), z_laplace(a, b, f), kind + str(n)


def check_record(args):
    rec, ground, sd, solve = args
    inp = rec['input']
    out = dict(mism=[], exc=None, nloads=0, solved=False, kinds=[])
    N = len(rec['pulses'])
    if N == 0:
        return out
    rnd = random.Random('%s/%s' % (sd, C.h(inp)))
    w = rec['weight']
    tags = [o['tag'] for o in rec['objs']]
    opulses = rec['opulses']
    rel = {q: (k, tags[o]) for o, lst in enumerate(opulses) for k, q in enumerate(lst)}
    try:
        f = rnd.choice(FREQS)
        realg = ground and rnd.random() < 0.3
        m = T.build(inp, ground, T.Concretiser(), f=f, vary_radius=True, real_ground=realg)
        slen = seg_lengths(m)
        exp = np.zeros(N, dtype=complex)
        mag = np.zeros(N)
        # ---- lumped loads in every attachment form
        for _ in range(rnd.choice([1, 2, 3])):
            ld, z, kind = make_lumped(rnd, f)
            out['kinds'].append(kind)
            form = rnd.choice(['abs', 'rel', 'alltag', 'all', 'abs2'])
            if form in ('abs', 'abs2'):
                qs = [rnd.randrange(N)] + ([rnd.randrange(N)] if form == 'abs2' else [])
                for q in qs:
                    m.register_load(ld, q)
            elif form == 'rel':
                qs = [rnd.randrange(N)]
                m.register_load(ld, rel[qs[0]][0], rel[qs[0]][1])
            elif form == 'alltag':
                o = rnd.randrange(len(tags))
                qs = list(opulses[o])
                m.register_load(ld, None, tags[o])
            else:
                qs = [q for lst in opulses for q in lst]
                m.register_load(ld)
            if sorted(int(p.idx) for p in ld.pulses) != sorted(qs):
                out['mism'].append(dict(what='attachment', form=form, code=sorted(int(p.idx) for p in ld.pulses),
                                        spec=sorted(qs)))
            for q in qs:
                exp[q] += w[q] * z
                mag[q] += w[q] * abs(z)
            out['nloads'] += 1
        # ---- distributed loads
        skin = {}
        ins = {}
        dk = rnd.choice(['none', 'skin-all', 'skin-tag', 'ins-all', 'ins-tag', 'both'])
        approx = False
        if dk != 'none':
            out['kinds'].append(dk)
        if dk in ('skin-all', 'both'):
            sg = logu(rnd, 4, 8)
            use_res = rnd.random() < 0.5
            for g in m.geo:
                l = Skin_Effect_Load(g, resistivity=1 / sg, all_wires=True) if use_res else \
                    Skin_Effect_Load(g, sg, all_wires=True)
                m.register_load(l, None, g.tag)
                skin[g.n + 1] = 1 / (1 / sg) if use_res else sg
        if dk == 'skin-tag':
            g = rnd.choice(list(m.geo))
            sg = logu(rnd, 4, 8)
            m.register_load(Skin_Effect_Load(g, sg), None, g.tag)
            skin[g.n + 1] = sg
        if dk in ('ins-all', 'both'):
            b, er = 0.002 * conc_scale(m) * rnd.uniform(1.5, 6), rnd.uniform(1.5, 6)
            for g in m.geo:
                m.register_load(Insulation_Load(g, b, er, all_wires=True), None, g.tag)
                ins[g.n + 1] = (b, er)
        if dk == 'ins-tag':
            g = rnd.choice(list(m.geo))
            b, er = 0.002 * conc_scale(m) * rnd.uniform(1.5, 6), rnd.uniform(1.5, 6)
            m.register_load(Insulation_Load(g, b, er), None, g.tag)
            ins[g.n + 1] = (b, er)
        m.fix_distributed_loads()
        radius = {g.n + 1: float(g.r_orig) for g in m.geo}
        if skin or ins:
            for q in range(N):
                for hv in rec['halves'][q]:
                    if not hv['real']:
                        continue
                    L = slen[(hv['obj'], hv['seg'])] / 2
                    if hv['obj'] in skin:
                        zi, akr = zint_per_length(skin[hv['obj']], radius[hv['obj']], f)
                        approx = approx or akr >= 100
                        exp[q] += w[q] * zi * L
                        mag[q] += w[q] * abs(zi * L)
                    if hv['obj'] in ins:
                        b, er = ins[hv['obj']]
                        zz = zins_per_length(radius[hv['obj']], b, er, f) * L
                        exp[q] += w[q] * zz
                        mag[q] += w[q] * abs(zz)
            out['nloads'] += 1
        # ---- (A) exact diagonal increments
        import copy
        twin = copy.deepcopy(m)             # an object that will never see the first frequency
        m.Z = np.zeros((N, N), dtype=complex)
        m.compute_impedance_matrix_loads()
        got = np.array(m.Z)
        # "at every frequency": the same object at a second frequency gives what an object gives that was never
        # at the first one (per-wire caches of the distributed loads)
        f2 = f * rnd.choice([0.5, 1.7, 3.0])
        m.f = f2
        m.Z = np.zeros((N, N), dtype=complex)
        m.compute_impedance_matrix_loads()
        twin.f = f2
        twin.Z = np.zeros((N, N), dtype=complex)
        twin.compute_impedance_matrix_loads()
        if not np.allclose(np.diag(m.Z), np.diag(twin.Z), rtol=1e-12, atol=0):
            qd = int(np.argmax(np.abs(np.diag(m.Z) - np.diag(twin.Z))))
            out['mism'].append(dict(what='load-term-depends-on-earlier-frequency', pulse=qd, distributed=dk, kinds=out['kinds'], f=f, f2=f2))
        m.f = f
        offd = got - np.diag(np.diag(got))
        if np.abs(offd).max(initial=0) != 0:
            out['mism'].append(dict(what='off-diagonal-load-term'))
        want = -1j / m.m * exp
        tol = 2e-2 if approx else 1e-8      # (1e-8: the value of mu_0 is not part of the property)
        d = np.diag(got)
        bad = [q for q in range(N) if abs(d[q] - want[q]) > tol * mag[q] / m.m + 1e-300]
        if bad:
            q = bad[0]
            out['mism'].append(dict(what='diagonal-increment', pulse=q, grounded=[x for x in bad if w[x] == 2] != [],
                                    junction=rec['pulses'][q]['kind'] in ('J1', 'J2'),
                                    distributed=dk, ratio=str(d[q] / want[q]) if want[q] else None,
                                    kinds=out['kinds'], f=f))
        pairs = [frozenset((o['p1'], o['p2'])) for o in inp]
        if not solve or len(set(pairs)) != len(pairs):
            return out
        # ---- (B) solved relations at 10 MHz
        out['mism'] += solved_relations(rec, ground, rnd, w)
        out['solved'] = True
    except np.linalg.LinAlgError:
        out['skipped'] = 'singular'
    except Exception as e:      # noqa
        import traceback
        out['exc'] = repr(e) + traceback.format_exc()[-600:]
    return out


def conc_scale(m):
    return 1.0


def feed_z(rec, ground, q, loads, f=10.0, extra=None):
    m = T.build(rec['input'], ground, T.Concretiser(), f=f)
    m.register_source(Excitation(1 + 0j), q)
    for ld, qq in loads:
        m.register_load(ld, qq)
    if extra:
        extra(m)
        m.fix_distributed_loads()
    m.compute()
    return m.sources[0].impedance, np.linalg.cond(m.Z), np.array(m.current)


def solved_relations(rec, ground, rnd, w):
    bad = []
    N = len(rec['pulses'])
    gnd = [q for q in range(N) if w[q] == 2]
    q = rnd.choice(gnd) if gnd and rnd.random() < 0.6 else rnd.randrange(N)
    z0, cond, i0 = feed_z(rec, ground, q, [])
    if not np.isfinite(cond) or cond > 1e7:
        return bad
    tol = 1e-12 * cond + 1e-10
    zl = complex(logu(rnd, -1, 3), rnd.choice([-1, 1]) * logu(rnd, -1, 3))
    z1, _, _ = feed_z(rec, ground, q, [(Impedance_Load(zl), q)])
    if abs((z1 - z0) - zl) > tol * max(abs(z1), abs(z0), abs(zl)) * 10:
        bad.append(dict(what='feed-impedance-rise', grounded=w[q] == 2, err=abs((z1 - z0) - zl) / abs(zl)))
    # two loads on one pulse = their sum
    q2 = rnd.randrange(N)
    za, zb = complex(30, 40), complex(5, -70)
    zs1, _, c1 = feed_z(rec, ground, q, [(Impedance_Load(za), q2), (Impedance_Load(zb), q2)])
    zs2, _, c2 = feed_z(rec, ground, q, [(Impedance_Load(za + zb), q2)])
    if abs(zs1 - zs2) > tol * abs(zs2) * 10:
        bad.append(dict(what='loads-do-not-add'))
    # neutral elements
    zn, _, _ = feed_z(rec, ground, q, [(Impedance_Load(0j), q2)])
    if abs(zn - z0) > tol * abs(z0) * 10:
        bad.append(dict(what='zero-load-not-neutral'))

    def ins1(m):
        for g in m.geo:
            m.register_load(Insulation_Load(g, 0.003, 1.0, all_wires=True), None, g.tag)
    zn, _, _ = feed_z(rec, ground, q, [], extra=ins1)
    if abs(zn - z0) > max(tol, 1e-9) * abs(z0) * 10:
        bad.append(dict(what='insulation-eps1-not-neutral', err=abs(zn - z0) / abs(z0)))

    def skin_inf(m):
        for g in m.geo:
            m.register_load(Skin_Effect_Load(g, 1e30, all_wires=True), None, g.tag)
    zn, _, _ = feed_z(rec, ground, q, [], extra=skin_inf)
    if abs(zn - z0) > 1e-7 * abs(z0):
        bad.append(dict(what='skin-infinite-conductivity-not-neutral', err=abs(zn - z0) / abs(z0)))
    sg = logu(rnd, 5, 7)

    def skin_c(m):
        for g in m.geo:
            m.register_load(Skin_Effect_Load(g, sg, all_wires=True), None, g.tag)

    def skin_r(m):
        for g in m.geo:
            m.register_load(Skin_Effect_Load(g, resistivity=1 / sg, all_wires=True), None, g.tag)
    zc, _, _ = feed_z(rec, ground, q, [], extra=skin_c)
    zr, _, _ = feed_z(rec, ground, q, [], extra=skin_r)
    if abs(zc - zr) > max(tol, 1e-9) * abs(zc) * 10:
        bad.append(dict(what='conductivity-resistivity-differ'))
    return bad


def cmdline_distributed(chk, tier):
    """distributed loads given on the command line (every spelling: conductivity / resistivity, for all
       objects or per tag in either registration order, insulation per tag with different parameters):
       the diagonal increments of the real model built by main() must equal the closed forms for the
       conductor halves the specification (TopologyOn.tla on the projected object list) assigns to each
       pulse, and no pulse may be attached twice to one load"""
    import io, contextlib
    from .c12 import project_input
    from mininec.mininec import main, Mininec
    rnd = C.rng('c08-cmdline')
    n = 40 if tier == 'quick' else 400
    cases = []
    for k in range(n):
        tags = rnd.sample([1, 2, 3, 5, 8], 3)
        pts = [(0, 0, 10), (4, 0.5, 11), (4.5, 4, 12.5), (1, 6, 14)]
        argv = ['-f', repr(rnd.choice([3.6, 14.2, 146.0]))]
        order = [0, 1, 2]
        rnd.shuffle(order)
        radii = {}
        for w in order:
            a, b = pts[w], pts[w + 1]
            if rnd.random() < 0.3:
                a, b = b, a
            r = rnd.choice([0.0008, 0.001, 0.002])
            radii[tags[w]] = r
            argv += ['-w', '%d,%d,%g,%g,%g,%g,%g,%g,%g' % ((tags[w], rnd.choice([2, 3, 4])) + a + b + (r,))]
        argv.append('--excitation-pulse=1')
        skin, ins = {}, {}
        c = rnd.choice(['cond-all', 'res-all', 'cond-tags', 'res-tags', 'mixed-tags', 'none'])
        if c == 'cond-all':
            sg = 10 ** rnd.uniform(4, 8)
            argv.append('--skin-effect-conductivity=%r' % sg)
            skin = {t: sg for t in tags}
        elif c == 'res-all':
            rs = 10 ** rnd.uniform(-8, -4)
            argv.append('--skin-effect-resistivity=%r' % rs)
            skin = {t: 1 / rs for t in tags}
        elif c != 'none':
            for t in rnd.sample(tags, rnd.choice([1, 2])):
                if c == 'cond-tags' or (c == 'mixed-tags' and rnd.random() < 0.5):
                    sg = 10 ** rnd.uniform(4, 8)
                    argv.append('--skin-effect-conductivity=%r,%d' % (sg, t))
                    skin[t] = sg
                else:
                    rs = 10 ** rnd.uniform(-8, -4)
                    argv.append('--skin-effect-resistivity=%r,%d' % (rs, t))
                    skin[t] = 1 / rs
        c = rnd.choice(['all', 'tags', 'tags', 'none'])
        if c == 'all':
            b, er = rnd.uniform(0.003, 0.01), rnd.uniform(1.5, 6)
            argv.append('--insulation-load=%r,%r' % (b, er))
            ins = {t: (b, er) for t in tags}
        elif c == 'tags':
            for t in rnd.sample(tags, rnd.choice([1, 2, 3])):
                b, er = rnd.uniform(0.003, 0.01), rnd.uniform(1.5, 6)
                argv.append('--insulation-load=%r,%r,%d' % (b, er, t))
                ins[t] = (b, er)
        out, err = io.StringIO(), io.StringIO()
        with contextlib.redirect_stdout(out), contextlib.redirect_stderr(err):
            try:
                m = main(list(argv), f_err=err, return_mininec=True)
            except SystemExit:
                m = None
        if not isinstance(m, Mininec):
            raise C.Machinery('distributed-load command line rejected: %s %s' % (argv, (out.getvalue() + err.getvalue())[:200]))
        cases.append((argv, m, skin, ins, radii))
    recs = T.spec_records(chk, [project_input(m) for _, m, _, _, _ in cases], False, name='c08-cmdline')
    for (argv, m, skin, ins, radii), rec in zip(cases, recs):
        N = len(m.pulses)
        f = m.f
        slen = seg_lengths(m)
        tags = [o['tag'] for o in rec['objs']]
        exp = np.zeros(N, dtype=complex)
        mag = np.zeros(N)
        approx = False
        for q in range(N):
            pu = rec['pulses'][q]
            # (Circuit!Halves: the image half of a grounded pulse is not conductor)
            for hv in (dict(obj=pu['sa'][0], seg=pu['sa'][1], real=pu['gnd'] != 0),
                       dict(obj=pu['sb'][0], seg=pu['sb'][1], real=pu['gnd'] != 1)):
                if not hv['real']:
                    continue
                t = tags[hv['obj'] - 1]
                L = slen[(hv['obj'], hv['seg'])] / 2
                if t in skin:
                    zi, akr = zint_per_length(skin[t], radii[t], f)
                    approx = approx or akr >= 100
                    exp[q] += zi * L
                    mag[q] += abs(zi * L)
                if t in ins:
                    zz = zins_per_length(radii[t], ins[t][0], ins[t][1], f) * L
                    exp[q] += zz
                    mag[q] += abs(zz)
        m.Z = np.zeros((N, N), dtype=complex)
        m.compute_impedance_matrix_loads()
        d = np.diag(m.Z)
        want = -1j / m.m * exp
        tol = 2e-2 if approx else 1e-8
        bad = [q for q in range(N) if abs(d[q] - want[q]) > tol * mag[q] / m.m + 1e-300]
        chk.case(dict(argv=argv), bool(skin or ins), sample=dict(argv=argv))
        chk.traces += 1
        if bad:
            q = bad[0]
            chk.violation(dict(kind='cmdline-distributed-diagonal', junction=rec['pulses'][q]['kind'] in ('J1', 'J2')),
                          dict(argv=argv, pulse=q, ratio=str(d[q] / want[q]) if want[q] else str(d[q]), spec=rec))
        for l in m.loads:
            ids = [int(p.idx) for p in l.pulses]
            if len(ids) != len(set(ids)):
                chk.violation(dict(kind='pulse-attached-twice-to-one-load'), dict(argv=argv, load=type(l).__name__, pulses=ids))


def jobs(chk, tier):
    rnd = C.rng('c08')
    frac = 0.08 if tier == 'quick' else 0.3
    for r, g in records(chk, tier, CIRC_INVS):
        yield (r, g, C.seed(), C.pick([r['input'], g], frac, 'c08-solve'))


def run(tier):
    chk = C.Check(PID, tier, 'exploration')
    chk.assumptions = [
        'TLC 1.8 on spec/Circuit.tla: load weight and conductor halves per pulse for every configuration',
        'load kinds, values (R, L, C log-uniform over 12 decades), attachment forms and frequencies (0.1, 7, 146, 1000 MHz) are seeded choices of the harness',
        'closed forms are evaluated by the harness (scipy scaled Bessel functions for the skin effect; where |k r| >= 100 the program uses its documented asymptote and the comparison tolerance is 2 %, otherwise 1e-9)',
        'solved relations at 10 MHz with tolerance 1e-11 * cond(Z); cond > 1e7 and overlapping wires skipped']
    for (r, g, _, solve), o in C.parallel_imap(check_record, jobs(chk, tier), chunksize=16):
        if not r['pulses']:
            continue
        chk.case(dict(i=r['input'], g=g), o['nloads'] >= 1,
                 sample=dict(input=r['input'], ground=g, kinds=o['kinds'], weights=r['weight']))
        chk.traces += 1
        if o.get('skipped'):
            chk.skip(o['skipped'])
        if o['solved']:
            chk.cov['solved'] = chk.cov.get('solved', 0) + 1
        if o['exc']:
            chk.violation(dict(kind='exception', exc=o['exc'].split('(')[0]),
                          dict(input=r['input'], ground=g, exc=o['exc'], spec=r))
        for mm in o['mism']:
            chk.violation(dict(kind=mm['what'], grounded=mm.get('grounded'), junction=mm.get('junction'),
                               distributed=(mm.get('distributed') not in (None, 'none')) if 'distributed' in mm else None),
                          dict(input=r['input'], ground=g, info=mm, spec=r))
    cmdline_distributed(chk, tier)
    return chk.finish(
        rule='one case per final state of Circuit.tla with at least one pulse; seeded load sets (1-3 lumped loads in '
             'random attachment forms plus optionally skin-effect / insulation loads); non-trivial = at least one load; '
             'a seeded fraction is additionally solved for the series-element relations')


def replay(path):
    d = json.load(open(path))['detail']
    o = check_record((d['spec'], d['ground'], C.seed(), True))
    print(json.dumps(o, indent=1, default=str))
    return 1 if (o['mism'] or o['exc']) else 0
