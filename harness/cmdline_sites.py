"""Base command lines and fault sites for the command-line pipeline (C20).

A base command is an ordered list of (group, [tokens]).  A fault site
replaces one comma separated field of one token of one group by a degenerate
value, or changes the arity, or names an unknown tag, or repeats / omits an
option.  Sites are identified by a stable string id
    <base>/<group>#<token index>/<field index>/<mutation>
The table spec/cmdline_table.json records for every site the stage of main()
at which it takes effect and the kind of outcome the error-handling design
gives it (usage | diag | report | crash | nonfinite); Cmdline.tla composes
them for several simultaneous faults.
"""
import json, os

STAGES = ['argparse', 'defaults', 'arcs', 'helices', 'wires', 'tags', 'transform_parse',
          'transform_apply', 'scale', 'taper', 'source_count', 'media', 'construct', 'sources',
          'loads_build', 'attach', 'unused_loads', 'skin_conductivity', 'skin_resistivity',
          'insulation', 'fix_distributed', 'phi', 'theta', 'near_field_params', 'options',
          'output_basic', 'output_cmdline', 'sweep', 'step_setf', 'step_compute', 'step_fields',
          'step_print', 'done']

BASES = {
    'free': [
        ('frequency', ['-f', '7.15']),
        ('wire', ['-w', '10,0,0,7,10,0,7,0.001']),
        ('excitation_pulse', ['--excitation-pulse=5']),
        ('theta', ['--theta=0,30,4']),
        ('phi', ['--phi=0,90,2']),
    ],
    'ground': [
        ('frequency', ['-f', '7.2']),
        ('medium', ['--medium=0,0,0']),
        ('wire', ['-w', '3,4,0,0,0,0,0,8,0.002', '-w', '8,3,0,0,8,6,0,8,0.002']),
        ('excitation_pulse', ['--excitation-pulse=1', '--excitation-pulse=2,8']),
        ('excitation_voltage', ['--excitation-voltage=2+1j', '--excitation-voltage=1']),
        ('load', ['--load=5-30j']),
        ('rlc_load', ['--rlc-load=2,1e-6,200e-12']),
        ('trap_load', ['--trap-load=1.5,2e-6,50e-12']),
        ('laplace_load_a', ['--laplace-load-a=1,1e-9']),
        ('laplace_load_b', ['--laplace-load-b=3,2e-7,1e-16']),
        ('attach_load', ['--attach-load=1,1', '--attach-load=2,2,3', '--attach-load=3,all,8',
                         '--attach-load=4,all']),
        ('skin_effect_conductivity', ['--skin-effect-conductivity=3e7']),
        ('option', ['--option=far-field', '--option=far-field-absolute']),
        ('ff_power', ['--ff-power=100']),
        ('ff_distance', ['--ff-distance=1000']),
        ('theta', ['--theta=10,35,3']),
        ('phi', ['--phi=0,45,3']),
    ],
    'media': [
        ('frequency', ['-f', '3.8']),
        ('medium', ['--medium=13,0.005,0,15', '--medium=5,0.001,-0.5']),
        ('boundary', ['--boundary=circular']),
        ('radial_count', ['--radial-count=16']),
        ('radial_radius', ['--radial-radius=0.001']),
        ('wire', ['-w', '5,0,0,0,0,0,12,0.0015', '-w', '2,0,0,12,0,5,12,0.0015']),
        ('excitation_pulse', ['--excitation-pulse=1']),
        ('skin_effect_resistivity', ['--skin-effect-resistivity=2.8e-8,1']),
        ('insulation_load', ['--insulation-load=0.003,2.3,2']),
        ('near_field', ['--near-field=2,3,1,1,1,2,2,1,2']),
        ('nf_power', ['--nf-power=50']),
        ('option', ['--option=near-field', '--option=far-field']),
        ('theta', ['--theta=0,40,3']),
        ('phi', ['--phi=0,90,2']),
    ],
    'curves': [
        ('frequency', ['-f', '28.0']),
        ('frequency_steps', ['--frequency-steps=2']),
        ('frequency_increment', ['--frequency-increment=0.5']),
        ('arc', ['-a', '5,4,1.5,0,180,0.001']),
        ('helix', ['--helix', '7,9,0.6,0.5,0.001,0.3,0.3,0.2,0.25']),
        ('wire', ['-w', '2,5,1.5,0,0,-1.5,0,0,0.001', '-w', '6,0.3,0,4,3,0,4,0.001']),
        ('geo_rotate', ['--geo-rotate=1,0,0,90,7', '--geo-rotate=3,10,20,30']),
        ('geo_translate', ['--geo-translate=2,0,5,0,7', '--geo-translate=4,0,0,20']),
        ('geo_scale', ['--geo-scale=1.1', '--geo-scale=0.9,2']),
        ('taper_wire', ['--taper-wire=2,1', '--taper-wire=8,3,0.05,2']),
        ('excitation_pulse', ['--excitation-pulse=3,5']),
        ('theta', ['--theta=0,45,3']),
        ('phi', ['--phi=0,120,3']),
    ],
}

VALUES = ['', 'x', '0', '-1', '1e300', 'nan', 'inf', '1e-300', '99', '1e29', '-1e29', '1e-29', '1_0', '1e', '0.5', '-9']
PAIR_VALUES = [('0', '0'), ('0', '-1'), ('-1', '0'), ('-1', '-1')]
# scalar options whose syntax is checked by the option parser itself
ARGPARSE_TYPED = {'frequency', 'frequency_steps', 'frequency_increment', 'ff_power', 'ff_distance',
                  'nf_power', 'radial_count', 'radial_radius', 'excitation_voltage', 'load',
                  'option', 'boundary'}


def split_token(tok):
    """'--opt=a,b' -> ('--opt=', ['a','b']);  'a,b' (value of a two-token option) -> ('', [...])"""
    if tok.startswith('--') and '=' in tok:
        k, v = tok.split('=', 1)
        return k + '=', v.split(',')
    return '', tok.split(',')


def sites():
    """-> dict id -> dict(base, group, argv)"""
    res = {}
    for bname, groups in BASES.items():
        def build(repl_group=None, repl_tokens=None, extra=None):
            argv = []
            for g, toks in groups:
                argv += (repl_tokens if g == repl_group else toks)
            return argv + (extra or [])
        res['%s/valid' % bname] = dict(base=bname, group=None, argv=build())
        for g, toks in groups:
            for ti, tok in enumerate(toks):
                if tok in ('-f', '-w', '-a', '--helix'):
                    continue
                pre, fields = split_token(tok)
                muts = []
                for fi in range(len(fields)):
                    for v in VALUES:
                        if v == fields[fi]:
                            continue
                        f2 = list(fields)
                        f2[fi] = v
                        muts.append(('%d/%s' % (fi, v or 'empty'), pre + ','.join(f2)))
                muts.append(('arity/drop', pre + ','.join(fields[:-1])))
                muts.append(('arity/extra', pre + ','.join(fields + ['1'])))
                for mname, newtok in muts:
                    t2 = list(toks)
                    t2[ti] = newtok
                    res['%s/%s#%d/%s' % (bname, g, ti, mname)] = dict(
                        base=bname, group=g, argv=build(g, t2))
            # two degenerate fields of ONE option (0 / -1 in every pair of fields): validation rules that look at one
            # field at a time miss combinations like "increment 0 with count -1"
            for ti, tok in enumerate(toks):
                if tok in ('-f', '-w', '-a', '--helix'):
                    continue
                pre, fields = split_token(tok)
                for fi in range(len(fields)):
                    for fj in range(fi + 1, len(fields)):
                        for va, vb in PAIR_VALUES:
                            if va == fields[fi] or vb == fields[fj]:
                                continue
                            f2 = list(fields)
                            f2[fi], f2[fj] = va, vb
                            t2 = list(toks)
                            t2[ti] = pre + ','.join(f2)
                            res['%s/%s#%d/%d&%d/%s&%s' % (bname, g, ti, fi, fj, va, vb)] = dict(
                                base=bname, group=g, argv=build(g, t2))
            # the whole group given twice / omitted
            res['%s/%s/twice' % (bname, g)] = dict(base=bname, group=g, argv=build(g, toks + toks))
            res['%s/%s/omitted' % (bname, g)] = dict(base=bname, group=g, argv=build(g, []))
    # pulse numbers exactly one past the last valid one (absolute / per object)
    custom = [('ground', 'attach_load', 1, '--attach-load=2,5,3', 'rel-one-past'),
              ('ground', 'attach_load', 0, '--attach-load=1,8', 'abs-one-past'),
              ('ground', 'excitation_pulse', 1, '--excitation-pulse=4,8', 'rel-one-past'),
              ('ground', 'excitation_pulse', 0, '--excitation-pulse=8', 'abs-one-past'),
              ('curves', 'excitation_pulse', 0, '--excitation-pulse=6,5', 'rel-one-past'),
              ('free', 'excitation_pulse', 0, '--excitation-pulse=10', 'abs-one-past'),
              ('media', 'excitation_pulse', 0, '--excitation-pulse=8', 'abs-one-past')]
    for bname, g, ti, newtok, label in custom:
        groups = BASES[bname]
        argv = []
        for g2, toks in groups:
            if g2 == g:
                t2 = list(toks)
                t2[ti] = newtok
                argv += t2
            else:
                argv += toks
        res['%s/%s#%d/%s' % (bname, g, ti, label)] = dict(base=bname, group=g, argv=argv)
    # two replaced tokens (scenarios the thorough tier found by simulation, pinned for the quick tier)
    multi = [('curves', [('arc', 1, '5,4,1.5,0,1e-29,0.001'), ('geo_scale', 1, '--geo-scale=0.9')], 'degenerate_arc_scaled_and_moved')]
    for bname, repl, label in multi:
        argv = []
        for g2, toks in BASES[bname]:
            t2 = list(toks)
            for g, ti, newtok in repl:
                if g == g2:
                    t2[ti] = newtok
            argv += t2
        res['%s/x/%s' % (bname, label)] = dict(base=bname, group='x', argv=argv)
    # contradictory / dependent options
    extra = {
        'free/x/nf_option_without_grid': ('free', ['--option=near-field']),
        'free/x/ff_abs_without_distance': ('free', ['--option=far-field-absolute']),
        'free/x/radials_without_medium': ('free', ['--radial-count=8', '--radial-radius=0.001']),
        'free/x/unused_load': ('free', ['--load=50']),
        'free/x/attach_without_load': ('free', ['--attach-load=1,1']),
        'free/x/voltage_without_pulse': ('free', ['--excitation-voltage=1', '--excitation-voltage=2']),
        'free/x/taper_unknown_wire': ('free', ['--taper-wire=5,1']),
        'free/x/duplicate_wire': ('free', ['-w', '10,0,0,7,10,0,7,0.001']),
        'free/x/crossing_wire': ('free', ['-w', '10,5,-5,7,5,5,7,0.001']),
        'free/x/huge_radius': ('free', ['-w', '4,0,0,17,10,0,17,5']),
        'free/x/both_tags_equal': ('free', ['-w', '1,4,0,0,17,10,0,17,0.001', '-w', '1,4,0,0,27,10,0,27,0.001']),
        'free/x/negative_sweep': ('free', ['--frequency-steps=3', '--frequency-increment=-4']),
        # a sweep whose LAST step has no input power (negative-resistance load): nothing may be printed before the diagnostic
        'free/x/late_step_without_power': ('free', ['-f', '14.3', '--load=-30', '--attach-load=1,5', '--frequency-steps=3',
                                                    '--frequency-increment=-3.5']),
        'free/x/sweep_to_zero': ('free', ['-f', '8', '--frequency-steps=3', '--frequency-increment=-4']),
        'free/x/zero_voltage': ('free', ['--excitation-voltage=0']),
        'free/x/tiny_voltage': ('free', ['--excitation-voltage=1e-25']),
        'free/x/negative_resistance_load': ('free', ['--load=-5000', '--attach-load=1,all']),
        'free/x/negative_resistance_one_pulse': ('free', ['--load=-50', '--attach-load=1,5']),
        'curves/x/equal_transform_keys': ('curves', ['--geo-rotate=2,0,0,10', '--geo-translate=2,1,0,0']),
        'curves/x/equal_keys_tagged': ('curves', ['--geo-translate=1,0,0,1,5', '--geo-rotate=4,5,0,0,2']),
        'ground/x/wire_below_ground': ('ground', ['-w', '3,0,5,-1,0,5,3,0.001']),
        'ground/x/both_ends_grounded': ('ground', ['-w', '3,0,5,0,4,5,0,0.001']),
        'ground/x/two_ideal_media': ('ground', ['--medium=0,0,0']),
        'ground/x/radials_on_ideal': ('ground', ['--radial-count=8', '--radial-radius=0.001']),
        'ground/x/insulation_inside_wire': ('ground', ['--insulation-load=0.001,3']),
        'ground/x/second_skin_load': ('ground', ['--skin-effect-resistivity=1e-7']),
        'media/x/nf_point_on_wire': ('media', ['--near-field=0,0,6,1,1,1,1,1,1']),
        # two degenerate fields of ONE option / options that only fail together (found by probing sub-agents)
        'media/x/nf_point_zero_inc_negative_count': ('media', ['--near-field=2,3,1,0,0,0,-1,1,1']),
        'media/x/nf_point_zero_inc_zero_count': ('media', ['--near-field=2,3,1,0,1,1,0,1,1']),
        'media/x/nf_point_negative_count': ('media', ['--near-field=2,3,1,1,1,1,-1,1,1']),
        'free/x/one_segment_wire_tapered': ('free', ['-w', '1,0,0,20,0,0,21,0.001', '--taper-wire=2,1']),
        'free/x/one_segment_wire_tapered_both': ('free', ['-w', '1,0,0,20,0,0,21,0.001', '--taper-wire=2,3']),
        'free/x/fat_short_wire_tapered': ('free', ['-w', '10,0,0,20,1,0,20,0.05', '--taper-wire=2,1']),
        'free/x/laplace_zero_denominator': ('free', ['--laplace-load-a=0', '--laplace-load-b=1', '--attach-load=1,1']),
        'free/x/laplace_zero_denominator_2': ('free', ['--laplace-load-a=0,0', '--laplace-load-b=1,2', '--attach-load=1,1']),
        'free/x/laplace_zero_numerator': ('free', ['--laplace-load-a=1', '--laplace-load-b=0', '--attach-load=1,1']),
        'free/x/basic_input_mixed_loads': ('free', ['--load=50', '--rlc-load=2,1e-6,2e-10', '--attach-load=1,1', '--attach-load=2,2',
                                                    '--output-basic-input=@TMP@']),
        'free/x/basic_input_plain': ('free', ['--load=50', '--attach-load=1,1', '--output-basic-input=@TMP@']),
        'free/x/cmdline_output_repeated_attach': ('free', ['--load=50', '--attach-load=1,1', '--attach-load=1,1', '--output-cmdline=@TMP@']),
        # a 0 V source on a numerically dead wire (its current is exactly 0) next to a live source: impedance 0/0
        'free/x/zero_volt_source_on_dead_wire': ('free', ['-w', '4,0,0,50,0,0,1e29,0.001', '--excitation-pulse=11',
                                                         '--excitation-voltage=1', '--excitation-voltage=0']),
        'free/x/live_source_on_dead_wire': ('free', ['-w', '4,0,0,50,0,0,1e29,0.001', '--excitation-pulse=11',
                                                     '--excitation-voltage=1', '--excitation-voltage=1']),
        # an arc whose angular extent is below the resolution of its coordinates once it is moved away from the origin
        'free/x/degenerate_arc_moved': ('free', ['-a', '4,1.5,0,1e-29,0.001', '--geo-translate=1,3,7,20']),
        'free/x/degenerate_helix_moved': ('free', ['--helix', '4,1e-29,1e-31,0.001,0.3', '--geo-translate=1,3,7,20']),
        'free/x/closed_arc_on_wire_end': ('free', ['-w', '9,5,2,0,20,1,0,20,0.001', '-a', '10,8,1,0,360,0.001',
                                                   '--geo-translate=0,0,0,20,10']),
        'curves/x/equal_keys_same_kind': ('curves', ['--geo-translate=7,0,0,1', '--geo-translate=7,0,0,1']),
        'media/x/radials_no_radius': ('media', None),
    }
    for sid, (bname, add) in extra.items():
        groups = BASES[bname]
        argv = []
        for g, toks in groups:
            if sid == 'media/x/radials_no_radius' and g == 'radial_radius':
                continue
            if sid.startswith('media/x/nf_point') and g == 'near_field':
                continue
            argv += toks
        res[sid] = dict(base=bname, group='x', argv=argv + (add or []))
    return res


TABLE = os.path.join(os.path.dirname(os.path.dirname(os.path.abspath(__file__))), 'spec',
                     'cmdline_table.json')


def load_table():
    return json.load(open(TABLE))
