"""C19 -- the report text faithfully carries the computed values.

Structure: every report is tokenised into block / row tokens and compared by
TLC with Expected(M) of spec/ReportGrammar.tla, M being the abstract model
projected from the real object (batched run).
Values (decided by the projection, not by TLC): every number of the report is
read back as text and compared with the value it reports -- relative 5e-6
(plus 1e-6 absolute for the fixed-point fields), printf-style fields to half
a unit of their last place; magnitude / phase columns against real /
imaginary.  Synthetic currents, fields, loads and voltages drive magnitudes
1e-30 .. 1e12 of both signs (including 9.9999995-type rounding boundaries)
through every field.
"""
import io, json, math, random, contextlib, re
import numpy as np
from . import common as C
from . import report as R
from . import models as M
from . import topo as T
from mininec.mininec import (main, Mininec, Wire, Excitation, Impedance_Load, Laplace_Load,
                             Series_RLC_Load, Trap_Load, Angle, ideal_ground, Far_Field_Pattern)
from mininec.util import format_float

PID = 'C19'


# ------------------------------------------------------------ structure

def tokenise(text):
    toks = []
    blocks = R.split_blocks(text)
    head = blocks[0][1]
    state = 'wires'
    for ln in head:
        s = ln.strip()
        if re.match(r'^(WIRE|ARC|HELIX) NO\. -?\d+$', s):
            toks.append('WIRE')
        elif re.match(r'^(WIRE|ARC|HELIX) NO\.\s+-?\d+\s+COORDINATES', s):
            toks.append('GBLOCK')
            state = 'geom'
        elif s.startswith('NO. OF SOURCES'):
            state = 'src'
        elif s.startswith('PULSE NO., VOLTAGE MAGNITUDE'):
            toks.append('SRC')
        elif s.startswith('PULSE NO.,RESISTANCE'):
            toks.append('LOADZ')
        elif s.startswith('PULSE NO., ORDER OF'):
            toks.append('LOADS')
        elif s.startswith('NUMERATOR, DENOMINATOR'):
            toks.append('COEF')
        elif state == 'geom' and s and not s.startswith('X ') and not s.startswith('NUMBER OF LOADS'):
            t = s.split()
            if len(t) == 7:
                toks.append('GEMPTY' if t[0] == '-' else 'GROW')
    for title, lines in blocks[1:]:
        body = [l.strip() for l in lines if l.strip()]
        if title == 'FREQ':
            continue
        if title == 'SOURCE DATA':
            toks.append('STEP')
            toks += ['SDBLOCK' for l in body if re.match(r'^PULSE\s+\d+\s+VOLTAGE', l)]
        elif title == 'CURRENT DATA':
            for l in body:
                if re.match(r'^(WIRE|ARC|HELIX) NO\.\s+-?\d+ :$', l):
                    toks.append('CBLOCK')
                elif l.startswith('PULSE') or l.startswith('NO.'):
                    continue
                else:
                    t = l.split()
                    if len(t) == 5:
                        toks.append(t[0] if t[0] in ('J', 'E') else 'CROW')
                    else:
                        toks.append('JUNK')
        elif title == 'FAR FIELD':
            toks.append('FFHDR')
        elif title == 'PATTERN DATA':
            isabs = any('MAG(V/M)' in l for l in body)
            toks.append('PATABS' if isabs else 'PATDB')
            for l in body:
                t = l.split()
                if (len(t) == 6 if isabs else len(t) == 5) and R.NUM.fullmatch(t[0]):
                    toks.append('ABSROW' if isabs else 'DBROW')
        elif title == 'NEAR FIELDS':
            toks.append('NFHDR')
        elif title == 'NEAR ELECTRIC FIELDS':
            toks.append('NFE')
        elif title == 'NEAR MAGNETIC FIELDS':
            toks.append('NFH')
        else:
            toks.append('UNKNOWN-BLOCK')
    return toks


def abstract(m, options, steps=1):
    objs = []
    for g in m.geo:
        def line(e):
            return 'G' if g.is_ground[e] else ('J' if g.conn[e] else 'E')
        objs.append(dict(npulses=len(g.pulses),
                         rows=sum(1 for p in g.pulses if p.geo[0] is p.geo[1]),
                         l1=line(0), l2=line(1)))
    loads = [dict(kind='S' if isinstance(l, Laplace_Load) else 'Z', n=len(l.pulses),
                  deg=int(getattr(l, 'degree', 0))) for l in m.loads]
    nff = -1
    if getattr(m, 'far_field', None) is not None and ('far-field' in options or 'far-field-absolute' in options):
        nff = int(np.prod(np.array(m.far_field.zen).shape))
    return dict(objs=objs, nsrc=len(m.sources), loads=loads,
                ffdb=nff if 'far-field' in options else -1,
                ffabs=nff if 'far-field-absolute' in options else -1,
                near=len(m.e_field) if 'near-field' in options else -1, steps=steps)


def grammar_check(chk, cases):
    """cases: list of (abstract model, tokens) -> list of first-difference index (0 = equal)"""
    wd = C.workdir('trace-c19')
    tf = wd + '/cases.json'
    json.dump([dict(m=a, toks=t) for a, t in cases], open(tf, 'w'))
    cfg = wd + '/RG.cfg'
    open(cfg, 'w').write('INIT Init\nNEXT Next\nPOSTCONDITION Post\nCHECK_DEADLOCK FALSE\n')
    import os
    res = C.tlc('ReportGrammar', os.path.relpath(cfg, C.SPEC), name='trace-run-c19', workers=1,
                env=dict(TRACE_FILE=tf), timeout=1200)
    chk.add_tlc(res)
    out = {}
    for line in open(res.path):
        mm = re.match(r'^<<"RG", (\d+), (\d+), (\d+), (\d+)>>', line)
        if mm:
            out[int(mm.group(1))] = (int(mm.group(2)) - 1, int(mm.group(3)), int(mm.group(4)))
    if len(out) != len(cases):
        raise C.Machinery('ReportGrammar produced %d verdicts for %d reports: %s'
                          % (len(out), len(cases), res.out[-1500:]))
    return [out[i + 1] for i in range(len(cases))]


# ------------------------------------------------------------ values

def tol_fixed(x):
    return 5e-6 * abs(x) + 1e-6


def tol_e(x):
    return 5e-6 * abs(x) + 1e-300


def cmp(name, printed, value, tol, bad):
    if not (abs(printed - value) <= tol):
        bad.append(dict(field=name, printed=printed, value=value,
                        decade=(int(math.floor(math.log10(abs(value)))) if value else None)))


def check_values(m, text, options, exp_lines=None):
    bad = []
    rep = R.parse_report(text)
    # geometry rows
    k = 0
    for b, g in zip(rep['geometry'], m.geo):
        if b['tag'] != g.tag:
            bad.append(dict(field='geometry-block-tag'))
        for row, p in zip(b['rows'], g.pulses):
            for j in range(3):
                cmp('geometry-point', row['point'][j], float(p.point[j]), tol_fixed(p.point[j]), bad)
            cmp('geometry-radius', row['radius'], float(p.geobj.r_orig), tol_fixed(p.geobj.r_orig), bad)
            if row['no'] != p.idx + 1:
                bad.append(dict(field='geometry-pulse-number', printed=row['no'], value=p.idx + 1))
            # the image half of a pulse on a grounded end is printed as minus the tag of its object
            for k, col in ((0, 'end1'), (1, 'end2')):
                if p.ground[k] and row[col] != -g.tag:
                    bad.append(dict(field='geometry-ground-end-column', printed=row[col], value=-g.tag))
    for w, g in zip(rep['wires'], m.geo):
        for j in range(3):
            cmp('wire-end', w['p1'][j], float(g.p1[j]), tol_fixed(g.p1[j]), bad)
            cmp('wire-end', w['p2'][j], float(g.p2[j]), tol_fixed(g.p2[j]), bad)
        cmp('wire-radius', w['radius'], float(g.r_orig), tol_fixed(g.r_orig), bad)
        if w['nseg'] != g.n_segments or w['tag'] != g.tag:
            bad.append(dict(field='wire-block-integers'))
    # source listing
    for s, ps in zip(m.sources, rep['sources']):
        if ps['pulse'] != s.idx + 1:
            bad.append(dict(field='source-listing-pulse'))
        # against the VOLTAGE the source drives with (not against the attributes kept for printing)
        v_ = complex(s.voltage)
        ph_ = math.degrees(math.atan2(v_.imag, v_.real))
        cmp('source-listing-magnitude', ps['mag'], abs(v_), tol_fixed(abs(v_)), bad)
        dphi = (ps['phase'] - ph_ + 180.0) % 360.0 - 180.0
        if abs(dphi) > max(1e-4, 5e-6 * abs(ph_)) and abs(v_) > 0:
            bad.append(dict(field='source-listing-phase', printed=ps['phase'], value=ph_))
    # load listing
    exp = [(p.idx + 1, l, p) for l in m.loads for p in l.pulses]
    for (pn, l, p), pl in zip(exp, rep['loads']):
        if pl['pulse'] != pn:
            bad.append(dict(field='load-listing-pulse'))
        if pl['kind'] == 'Z':
            z = l.impedance(m.f, p)
            cmp('load-resistance', pl['r'], z.real, tol_fixed(z.real), bad)
            cmp('load-reactance', pl['x'], z.imag, tol_fixed(z.imag), bad)
        else:
            for d, bn, an in pl['coef']:
                f = 10 ** (6 * d)
                cmp('laplace-numerator', bn, l.b[d] * f, 1e-5 * abs(l.b[d] * f) + 1e-300, bad)
                cmp('laplace-denominator', an, l.a[d] * f, 1e-5 * abs(l.a[d] * f) + 1e-300, bad)
    cmp('frequency', rep['freq'], m.f, tol_fixed(m.f), bad)
    for st in rep['steps']:
        # source data
        if len(st['source_data']) != len(m.sources):
            bad.append(dict(field='source-block-count'))
        for s, sd in zip(m.sources, st['source_data']):
            if sd['pulse'] != s.idx + 1:
                bad.append(dict(field='source-data-pulse'))
            cmp('source-voltage-re', sd['v'].real, s.voltage.real, tol_fixed(s.voltage.real), bad)
            cmp('source-voltage-im', sd['v'].imag, s.voltage.imag, tol_fixed(s.voltage.imag), bad)
            c = s.current
            cmp('source-current-re', sd['current'].real, c.real, tol_e(c.real), bad)
            cmp('source-current-im', sd['current'].imag, c.imag, tol_e(c.imag), bad)
            z = s.impedance
            cmp('source-impedance-re', sd['impedance'].real, z.real, tol_e(z.real), bad)
            cmp('source-impedance-im', sd['impedance'].imag, z.imag, tol_e(z.imag), bad)
            cmp('source-power', sd['power'], s.power, tol_e(s.power), bad)
        # currents: numbered rows
        for b, g in zip(st['currents'], m.geo):
            rows = [l for l in b['lines'] if l[0] not in ('J', 'E')]
            pl = [p for p in g.pulses if p.geo[0] is p.geo[1]]
            if len(rows) != len(pl):
                bad.append(dict(field='current-row-count'))
            for l, p in zip(rows, pl):
                c = m.current[p.idx]
                if l[0] != p.idx + 1:
                    bad.append(dict(field='current-row-pulse-number'))
                cmp('current-re', l[1], c.real, tol_e(c.real), bad)
                cmp('current-im', l[2], c.imag, tol_e(c.imag), bad)
                cmp('current-magnitude', l[3], abs(c), tol_e(abs(c)), bad)
                # magnitude / phase columns against the printed real / imaginary columns
                cmp('current-mag-vs-columns', l[3], math.hypot(l[1], l[2]), 2e-5 * abs(l[3]) + 1e-300, bad)
                if abs(c) > 0:
                    ph = math.degrees(math.atan2(c.imag, c.real))
                    d = abs((l[4] - ph + 180) % 360 - 180)
                    if d > 5e-6 * 180 + 1e-6:
                        bad.append(dict(field='current-phase', printed=l[4], value=ph))
        # currents: J / E lines (which pulse currents flow through a wire end is the specification's statement:
        # coefficient vectors of spec/TopologyOn.tla for this object list; ends where two or more later wires join a
        # FIRST end are C09's recorded finding and left to it)
        if exp_lines is not None:
            for o, b in enumerate(st['currents']):
                ends = [l for l in b['lines'] if l[0] in ('J', 'E')]
                want = [(e, x) for e, x in enumerate(exp_lines[o]) if x in ('J', 'E') or isinstance(x, (tuple, list))]
                if len(ends) != len(want) or [l[0] for l in ends] != [x if isinstance(x, str) else x[0] for e, x in want]:
                    bad.append(dict(field='end-line-kinds'))
                    continue
                for l, (e, x) in zip(ends, want):
                    if isinstance(x, str):
                        c = 0j
                    elif e == 0 and len(x[1]) >= 2:
                        continue
                    else:
                        c = sum(cf * complex(m.current[int(q)]) for q, cf in x[1].items())
                    cmp('end-line-re', l[1], c.real, tol_e(c.real), bad)
                    cmp('end-line-im', l[2], c.imag, tol_e(c.imag), bad)
                    cmp('end-line-magnitude', l[3], abs(c), tol_e(abs(c)), bad)
        # far field tables
        if st['far_db'] is not None:
            ff = m.far_field
            v, h, t = ff.gain.T
            for row, th, ph, a, b_, c_ in zip(st['far_db'], np.array(ff.zen).flat, np.array(ff.azi).flat,
                                              v.flat, h.flat, t.flat):
                cmp('ff-theta', row[0], th, tol_fixed(th), bad)
                cmp('ff-phi', row[1], ph, tol_fixed(ph), bad)
                cmp('ff-vertical-db', row[2], a, tol_fixed(a), bad)
                cmp('ff-horizontal-db', row[3], b_, tol_fixed(b_), bad)
                cmp('ff-total-db', row[4], c_, tol_fixed(c_), bad)
        if st['far_abs'] is not None:
            ff = m.far_field
            info, rows = st['far_abs']
            cmp('ff-distance', info['dist'], m.ff_dist, tol_e(m.ff_dist), bad)
            cmp('ff-power', info['power'], m.ff_power, tol_e(m.ff_power), bad)
            for row, th, ph, et, ep in zip(rows, np.array(ff.zen).flat, np.array(ff.azi).flat,
                                           np.array(ff.e_theta).flat, np.array(ff.e_phi).flat):
                cmp('ffabs-theta', row[0], th, 0.005001, bad)
                cmp('ffabs-phi', row[1], ph, 0.005001, bad)
                cmp('ffabs-etheta-mag', row[2], abs(et), 5.0001e-4 * abs(et) + 1e-300, bad)
                cmp('ffabs-ephi-mag', row[4], abs(ep), 5.0001e-4 * abs(ep) + 1e-300, bad)
                for nm, val, pr in (('ffabs-etheta-phase', et, row[3]), ('ffabs-ephi-phase', ep, row[5])):
                    if abs(val) > 0:
                        d = abs((pr - math.degrees(math.atan2(val.imag, val.real)) + 180) % 360 - 180)
                        if d > 0.005001:
                            bad.append(dict(field=nm, printed=pr, value=math.degrees(np.angle(val))))
        # near field
        for nm, blocks, vals in (('E', st['near_e'], getattr(m, 'e_field', [])),
                                 ('H', st['near_h'], getattr(m, 'h_field', []))):
            if not blocks:
                continue
            for b, v, pt in zip(blocks, vals, m.near_field_coord.T):
                for j in range(3):
                    cmp('near-point', b['point'][j], pt[j], tol_fixed(pt[j]), bad)
                for ax, val in zip('XYZ', v):
                    r = b['comps'][ax]
                    cmp('near-%s-re' % nm, r[0], val.real, tol_e(val.real), bad)
                    cmp('near-%s-im' % nm, r[1], val.imag, tol_e(val.imag), bad)
                    cmp('near-%s-mag' % nm, r[2], abs(val), tol_e(abs(val)), bad)
                    cmp('near-%s-mag-vs-columns' % nm, r[2], math.hypot(r[0], r[1]), 2e-5 * abs(r[2]) + 1e-300, bad)
                    if abs(val) > 0:
                        d = abs((r[3] - math.degrees(math.atan2(val.imag, val.real)) + 180) % 360 - 180)
                        if d > 5e-6 * 180 + 1e-6:
                            bad.append(dict(field='near-%s-phase' % nm, printed=r[3]))
    return bad


# ------------------------------------------------------------ scenarios

def mant(rnd):
    return rnd.choice([1.0, 9.9999995, 9.99999949, 1.2345678, 5.0, 3.3333333, 0.99999996 * 10, 7.7777777])


def value(rnd, lo=-30, hi=12):
    return rnd.choice([-1, 1]) * mant(rnd) * 10.0 ** rnd.randint(lo, hi)


def cvalue(rnd, lo=-30, hi=12):
    return complex(value(rnd, lo, hi), value(rnd, lo, hi))


def scenario(args):
    kind, sd, exp_lines = args
    rnd = random.Random('%s/%s' % (sd, kind))
    out = dict(bad=[], exc=None, abs=None, toks=None, info=kind)
    try:
        name = kind.split('#')[0]
        opts = set(rnd.choice([['far-field'], ['far-field', 'far-field-absolute'], ['near-field'],
                               ['far-field-absolute', 'near-field'], ['far-field', 'near-field', 'far-field-absolute']]))
        if name in M.ARCHETYPES:
            m = M.ARCHETYPES[name][0](rnd.choice([7.0, 14.2]))
        else:
            # a Topology-like structure: chain / star / grounded
            inp = json.loads(name)
            m = T.build(inp, True, T.Concretiser(), f=rnd.choice([7.0, 21.3]))
            npul = len(m.pulses)
            for k in range(rnd.choice([1, 2, 3])):
                if npul:
                    m.register_source(Excitation(cvalue(rnd, -3, 3)), rnd.randrange(npul))
            if npul and rnd.random() < 0.7:
                m.register_load(Impedance_Load(complex(abs(value(rnd, -8, 6)), value(rnd, -8, 6))), rnd.randrange(npul))
                m.register_load(Laplace_Load(a=(1.0, abs(value(rnd, -12, -9))), b=(abs(value(rnd, -3, 3)), abs(value(rnd, -9, -6)), 1e-16)),
                                rnd.randrange(npul))
            if not m.sources or not npul:
                out['skip'] = 'no pulses'
                return out
        m.compute()
        if not (m.power > 0):
            out['skip'] = 'non-positive input power (numerically degenerate structure)'
            return out
        nf = (rnd.choice([1.0, -2.0]), 2.0, 3.0), (1.0, 1.0, 0.5), (2, 1, 2)
        m.compute_far_field(Angle(0, 30, 4), Angle(0, 90, 3), pwr=rnd.choice([None, 100.0]),
                            dist=rnd.choice([0, 1000.0, 2.5e4]))
        m.compute_near_field(*nf, pwr=rnd.choice([None, 10.0]))
        synthetic = '#syn' in kind
        if synthetic:
            n = len(m.pulses)
            m.current = np.array([cvalue(rnd) for _ in range(n)])
            m.power = abs(value(rnd, -6, 6))
            ff = m.far_field
            shp = ff.gain.shape
            ff.gain = np.array([value(rnd, -3, 2) for _ in range(int(np.prod(shp)))]).reshape(shp)
            ff.e_theta = np.array([cvalue(rnd) for _ in range(int(np.prod(ff.e_theta.shape)))]).reshape(ff.e_theta.shape)
            ff.e_phi = np.array([cvalue(rnd) for _ in range(int(np.prod(ff.e_phi.shape)))]).reshape(ff.e_phi.shape)
            m.e_field = [np.array([cvalue(rnd) for _ in range(3)]) for _ in m.e_field]
            m.h_field = [np.array([cvalue(rnd) for _ in range(3)]) for _ in m.h_field]
            m.ff_power = abs(value(rnd, -6, 9))
            m.ff_dist = abs(value(rnd, 0, 9))
            for l in m.loads:
                if isinstance(l, Impedance_Load):
                    l._impedance = cvalue(rnd, -8, 11)     # (after the solve: only printed)
        text = m.as_mininec(opts)
        out['abs'] = abstract(m, opts)
        out['toks'] = tokenise(text)
        out['bad'] = check_values(m, text, opts, exp_lines)
    except R.ReportError as e:
        out['bad'] = [dict(field='report-grammar', msg=str(e))]
    except Exception as e:      # noqa
        import traceback
        out['exc'] = repr(e) + traceback.format_exc()[-600:]
    return out


STRUCTS = [
    [dict(p1=101, p2=1, ns=3, tag=0), dict(p1=1, p2=2, ns=2, tag=0)],
    [dict(p1=1, p2=2, ns=2, tag=0), dict(p1=1, p2=3, ns=1, tag=5), dict(p1=1, p2=101, ns=2, tag=0)],
    [dict(p1=1, p2=2, ns=1, tag=0), dict(p1=2, p2=3, ns=3, tag=0), dict(p1=3, p2=4, ns=1, tag=0)],
    [dict(p1=1, p2=2, ns=4, tag=7), dict(p1=3, p2=4, ns=1, tag=2), dict(p1=2, p2=101, ns=1, tag=0)],
    [dict(p1=2, p2=1, ns=2, tag=0), dict(p1=3, p2=1, ns=2, tag=0), dict(p1=4, p2=1, ns=2, tag=0), dict(p1=5, p2=1, ns=3, tag=0)],
    # a wire grounded at its first end whose second end joins an EARLIER wire (radiator given after the top wire)
    [dict(p1=1, p2=2, ns=3, tag=0), dict(p1=101, p2=2, ns=3, tag=0)],
    [dict(p1=2, p2=1, ns=2, tag=0), dict(p1=101, p2=2, ns=2, tag=0), dict(p1=2, p2=3, ns=2, tag=0)],
]


def run(tier):
    chk = C.Check(PID, tier, 'other')
    chk.assumptions = [
        'structure: TLC compares the token sequence of every report with Expected(M) of spec/ReportGrammar.tla (batched run)',
        'values: read back by harness/report.py and compared by the projection (not by TLC): 5e-6 relative, +1e-6 absolute for fixed-point fields, %.3E fields 5e-4 relative, %.2f fields 0.005',
        'synthetic values are injected into Mininec.current, .power, far_field arrays, e_field / h_field, load impedances (in the harness process only)']
    nrep = 40 if tier == 'quick' else 400
    kinds = []
    for a in sorted(M.ARCHETYPES):
        for r in range(nrep // 4):
            kinds.append('%s#%d' % (a, r))
            kinds.append('%s#syn%d' % (a, r))
    for s in STRUCTS:
        for r in range(nrep // 4):
            kinds.append('%s#syn%d' % (json.dumps(s), r))
            kinds.append('%s#%d' % (json.dumps(s), r))
    recs = T.spec_records(chk, STRUCTS, True, name='c19-structs')
    explines = {json.dumps(s_): (None if r_.get('reject') else T.spec_lines(r_)) for s_, r_ in zip(STRUCTS, recs)}
    outs = C.parallel_map(scenario, [(k, C.seed(), explines.get(k.split('#')[0])) for k in kinds], chunksize=2)
    cases = []
    idx = []
    for k, o in zip(kinds, outs):
        if o.get('skip'):
            chk.skip(o['skip'])
            continue
        chk.case(k, True, sample=dict(model=k[:120], tokens=(o['toks'] or [])[:25]))
        if o['exc']:
            chk.violation(dict(kind='exception', exc=o['exc'].split('(')[0]), dict(scenario=k, exc=o['exc']))
            continue
        seen = set()
        for b in o['bad']:
            key = (b['field'], b.get('decade') is not None and (b['decade'] >= 8), b.get('decade') is not None and b['decade'] < -1)
            if key in seen:
                continue
            seen.add(key)
            chk.violation(dict(kind='value', field=b['field'], large=key[1]), dict(scenario=k, info=b))
        if o['abs'] is not None:
            cases.append((o['abs'], o['toks']))
            idx.append(k)
    # sweeps through main (frequency independent part once, dependent part per step)
    for name, (fn, argv) in sorted(M.ARCHETYPES.items()):
        so, se = io.StringIO(), io.StringIO()
        with contextlib.redirect_stdout(so):
            rc = main(argv + ['-f', '7', '--frequency-steps=3', '--frequency-increment=0.5',
                              '--theta=0,30,4', '--phi=0,90,3'], f_err=se)
        if rc:
            raise C.Machinery('sweep command rejected: %s' % se.getvalue())
        m = fn(7.0)
        m.compute()
        m.compute_far_field(Angle(0, 30, 4), Angle(0, 90, 3))
        cases.append((abstract(m, {'far-field'}, steps=3), tokenise(so.getvalue())))
        idx.append('sweep/' + name)
        chk.case('sweep/' + name, True)
    ver = grammar_check(chk, cases)
    for k, (a, t), (diff, nexp, ngot) in zip(idx, cases, ver):
        chk.traces += 1
        if diff:
            exp_tok = None
            chk.violation(dict(kind='structure', at_token=(t[diff - 1] if diff - 1 < len(t) else '<end>')),
                          dict(scenario=k, first_difference=diff, expected_len=nexp, got_len=ngot,
                               tokens=t[max(0, diff - 5):diff + 5], model=a))
    # number formatter over the whole magnitude range (every decade, both signs, boundary mantissas)
    rnd = C.rng('c19-ff')
    nbad = 0
    for dec in range(-30, 13):
        for mt in (1.0, 9.9999995, 9.99999949, 1.2345678, 3.3333333, 7.7777777, 9.9999996):
            for sg in (-1, 1):
                x = sg * mt * 10.0 ** dec
                for use_e in (0, 1):
                    s = format_float((x,), use_e=use_e)[0]
                    chk.evaluations += 1
                    try:
                        back = float(s)
                    except ValueError:
                        back = None
                    tol = tol_e(x) if (use_e and abs(x) < 0.1) else tol_fixed(x)
                    if back is None or abs(back - x) > tol:
                        nbad += 1
                        chk.violation(dict(kind='format_float', use_e=use_e, large=dec >= 8, small=dec < -1),
                                      dict(x=x, text=s, use_e=use_e))
    return chk.finish(
        rule='one case per (model, option set, real or synthetic values) report and per sweep; every number of every '
             'report is one comparison; all cases are non-trivial (junction / grounded / multi-source / loaded models); '
             'plus the number formatter over 43 decades x 7 mantissas x 2 signs x 2 modes',
        explanation='structure decided by TLC against ReportGrammar.tla; numeric read-back decided by the projection in harness/c19.py')


def replay(path):
    d = json.load(open(path))['detail']
    print(json.dumps(d, indent=1, default=str)[:3000])
    if 'scenario' in d and not d['scenario'].startswith('sweep/'):
        name = d['scenario'].split('#')[0]
        exp = None
        if name.startswith('['):
            rec = T.spec_records(None, [json.loads(name)], True, name='c19-replay')[0]
            exp = None if rec.get('reject') else T.spec_lines(rec)
        o = scenario((d['scenario'], C.seed(), exp))
        print(json.dumps(dict(bad=o['bad'][:10], exc=o['exc']), indent=1, default=str))
        return 1 if (o['bad'] or o['exc']) else 0
    return 1
