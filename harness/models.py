"""Small well-conditioned model archetypes shared by several checks.

Each archetype is a function f(MHz) -> Mininec (fresh object, sources and
loads registered) and, where it can be expressed, an argv list for main().
"""
import numpy as np
from mininec.mininec import (Mininec, Wire, Arc, Helix, Excitation, Medium,
                             ideal_ground, Impedance_Load, Series_RLC_Load,
                             Trap_Load, Laplace_Load, Skin_Effect_Load,
                             Insulation_Load)


def vee_skin_ins(f):
    """two wires in a V (junction), skin effect on all, insulation on one"""
    ws = [Wire(3, 0, 0, 10, 3.2, 0, 12, 0.001), Wire(3, 0, 0, 10, -3, 1, 12.5, 0.0012)]
    m = Mininec(f, ws)
    m.register_source(Excitation(1 + 0j), 0, 2)       # junction pulse (first of wire 2)
    for w in m.geo:
        ld = Skin_Effect_Load(w, 3e4, all_wires=True)
        m.register_load(ld, None, w.tag)
    ld = Insulation_Load(m.geo[1], 0.003, 2.5)
    m.register_load(ld, None, m.geo[1].tag)
    m.fix_distributed_loads()
    return m


VEE_ARGV = ['-w', '3,0,0,10,3.2,0,12,0.001', '-w', '3,0,0,10,-3,1,12.5,0.0012',
            '--excitation-pulse=1,2', '--skin-effect-conductivity=3e4',
            '--insulation-load=0.003,2.5,2']


def inv_l_lumped(f):
    """inverted L over ideal ground with every lumped load kind"""
    ws = [Wire(4, 0, 0, 0, 0, 0, 8, 0.002), Wire(3, 0, 0, 8, 6, 0, 8, 0.002)]
    m = Mininec(f, ws, media=[ideal_ground])
    m.register_source(Excitation(2 + 1j), 0)
    m.register_load(Impedance_Load(5 - 30j), 0)
    m.register_load(Series_RLC_Load(R=2.0, L=1e-6, C=200e-12), 2)
    m.register_load(Trap_Load(1.5, 2e-6, 50e-12), 4)
    m.register_load(Laplace_Load(a=(1.0, 1e-9), b=(3.0, 2e-7, 1e-16)), 5)
    return m


INVL_ARGV = ['-w', '4,0,0,0,0,0,8,0.002', '-w', '3,0,0,8,6,0,8,0.002', '--medium=0,0,0',
             '--excitation-pulse=1', '--excitation-voltage=2+1j',
             '--load=5-30j', '--rlc-load=2,1e-6,200e-12', '--trap-load=1.5,2e-6,50e-12',
             '--laplace-load-a=1,1e-9', '--laplace-load-b=3,2e-7,1e-16',
             '--attach-load=1,1', '--attach-load=2,3', '--attach-load=3,5', '--attach-load=4,6']


def plain_two_sources(f):
    ws = [Wire(6, -5, 0, 7, 5, 0, 7, 0.001)]
    m = Mininec(f, ws)
    m.register_source(Excitation(1 + 0j), 1)
    m.register_source(Excitation(0.5, 60), 3)
    return m


PLAIN_ARGV = ['-w', '6,-5,0,7,5,0,7,0.001', '--excitation-pulse=2', '--excitation-pulse=4',
              '--excitation-voltage=1', '--excitation-voltage=0.25+0.4330127j']


def real_ground_skin(f):
    """vertical with top wire over two real media, skin effect (resistivity) on one wire"""
    ws = [Wire(4, 0, 0, 0, 0, 0, 9, 0.0015, tag=3), Wire(2, 0, 0, 9, 0, 4, 9, 0.0015, tag=7)]
    media = [Medium(13, 0.005, coord=20), Medium(5, 0.001, height=-1)]
    m = Mininec(f, ws, media=media)
    m.register_source(Excitation(1 + 0j), 0)
    ld = Skin_Effect_Load(m.geo.by_tag[3], resistivity=2.8e-5)
    m.register_load(ld, None, 3)
    m.fix_distributed_loads()
    return m


REALG_ARGV = ['-w', '3,4,0,0,0,0,0,9,0.0015', '-w', '7,2,0,0,9,0,4,9,0.0015',
              '--medium=13,0.005,0,20', '--medium=5,0.001,-1', '--excitation-pulse=1',
              '--skin-effect-resistivity=2.8e-5,3']

ARCHETYPES = {
    'vee_skin_ins': (vee_skin_ins, VEE_ARGV),
    'inv_l_lumped': (inv_l_lumped, INVL_ARGV),
    'plain_two_sources': (plain_two_sources, PLAIN_ARGV),
    'real_ground_skin': (real_ground_skin, REALG_ARGV),
}
