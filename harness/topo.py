"""Binding of spec/Topology.tla to the real code.

  concretise(abstract input)  -> Wire objects (point ids -> coordinates)
  project(Mininec)            -> abstract state in the vocabulary of the spec
  compare(dump record, m)     -> list of mismatching fields
  report lines / geometry rows are taken from the *text* of the real report.
"""
import math, random
import numpy as np
from mininec.mininec import Mininec, Wire, Arc, Geo_Container, ideal_ground, Excitation, Medium
from . import report as R

# generic positions: no three collinear, pairwise >= 0.9 apart, z >= 1 for
# free points; ground points have z = 0
FREE = {1: (0.0, 0.0, 1.0), 2: (1.3, 0.1, 1.2), 3: (1.1, 1.4, 1.5),
        4: (-0.2, 1.2, 2.4), 5: (0.6, 0.7, 3.1), 6: (2.4, 1.0, 2.0),
        7: (-1.1, -0.3, 1.9), 8: (2.2, -0.9, 2.8)}
GND = {101: (0.2, -1.0, 0.0), 102: (1.9, 1.9, 0.0), 103: (-1.2, 1.0, 0.0),
       104: (2.9, -0.4, 0.0)}


class Concretiser:
    """Maps point ids to coordinates.  Same id -> within `jitter` (well below
       the matching tolerance 1e-3 * shortest segment); different ids -> far
       apart.  A seeded similarity transform (rotation about z, scale,
       horizontal shift) moves the whole constellation."""

    def __init__(self, rnd=None, jitter=0.0, scale=None):
        self.rnd = rnd or random.Random(0)
        a = self.rnd.uniform(0, 2 * math.pi) if rnd else 0.0
        self.c, self.s = math.cos(a), math.sin(a)
        self.scale = scale if scale is not None else \
            (self.rnd.choice([0.5, 1.0, 3.0, 10.0]) if rnd else 1.0)
        self.shift = (self.rnd.uniform(-5, 5), self.rnd.uniform(-5, 5)) \
            if rnd else (0.0, 0.0)
        self.jitter = jitter

    def base(self, pid):
        x, y, z = FREE[pid] if pid < 100 else GND[pid]
        x, y = self.c * x - self.s * y, self.s * x + self.c * y
        return ((x + self.shift[0]) * self.scale,
                (y + self.shift[1]) * self.scale, z * self.scale)

    def point(self, pid, first):
        """first use of an id gets the exact base point, later uses are
           perturbed by up to jitter (per coordinate) when jitter > 0"""
        b = self.base(pid)
        if first or not self.jitter:
            return b
        j = self.jitter * self.scale
        d = [self.rnd.uniform(-j, j) for _ in range(3)]
        return tuple(b[k] + d[k] for k in range(3))


def build_wires(inp, conc=None, radius=0.001, vary_radius=False):
    conc = conc or Concretiser()
    seen = set()
    ws = []
    for k, o in enumerate(inp):
        r_k = radius * (1.0 + 0.5 * (k % 3)) if vary_radius else radius
        ends = []
        for pid in (o['p1'], o['p2']):
            ends.append(conc.point(pid, pid not in seen))
            seen.add(pid)
        tag = o['tag'] or None
        ws.append(Wire(o['ns'], *ends[0], *ends[1], r_k * conc.scale,
                       tag=tag))
    return ws


ARC_SHIFT = np.array([5.0, 3.0, 0.0])
ARC_R = 0.9


def arc_params(o):
    """angles and vertical offset of the arc that realises a curve object of the specification"""
    g1, g2 = o['p1'] > 100, o['p2'] > 100
    if o['p1'] == o['p2']:
        return 0.0, 360.0, 2.0          # closed on itself, off the ground
    if g1 and g2:
        return 0.0, 180.0, 0.0
    if g1:
        return 0.0, 130.0, 0.0
    if g2:
        return 50.0, 180.0, 0.0
    return 25.0, 145.0, 1.0


class CurveConcretiser(Concretiser):
    """point ids at the ends of the (single) curve object sit on the arc's end points"""

    def __init__(self, inp, rnd=None, jitter=0.0):
        super().__init__(None, jitter=jitter, scale=1.0)
        self.rnd = rnd or random.Random(0)
        self.fixed = {}
        for o in inp:
            if o.get('kind') == 'A':
                a1, a2, z0 = arc_params(o)
                arc = Arc(o['ns'], ARC_R, a1, a2, 0.001)
                shift = ARC_SHIFT + np.array([0, 0, z0])
                e1 = arc.segends[0] + shift
                e2 = arc.segends[-1] + shift
                self.fixed[o['p1']] = tuple(e1)
                if o['p2'] != o['p1']:
                    self.fixed[o['p2']] = tuple(e2)

    def base(self, pid):
        if pid in self.fixed:
            return self.fixed[pid]
        return Concretiser.base(self, pid)


def build(inp, ground, conc=None, f=10.0, vary_radius=False, real_ground=False):
    media = None
    if ground:
        media = [Medium(13.0, 0.005)] if real_ground else [ideal_ground]
    if not any(o.get('kind') == 'A' for o in inp):
        return Mininec(f, build_wires(inp, conc, vary_radius=vary_radius), media=media)
    if conc is None or not isinstance(conc, CurveConcretiser):
        conc = CurveConcretiser(inp, getattr(conc, 'rnd', None), getattr(conc, 'jitter', 0.0))
    geo = Geo_Container()
    seen = set()
    arcs = []
    for k, o in enumerate(inp):
        tag = o['tag'] or None
        if o.get('kind') == 'A':
            a1, a2, z0 = arc_params(o)
            obj = Arc(o['ns'], ARC_R, a1, a2, 0.001, tag=tag)
            arcs.append((obj, ARC_SHIFT + np.array([0, 0, z0])))
            seen.update((o['p1'], o['p2']))
        else:
            ends = []
            for pid in (o['p1'], o['p2']):
                ends.append(conc.point(pid, pid not in seen))
                seen.add(pid)
            r_k = 0.001 * (1.0 + 0.5 * (k % 3)) if vary_radius else 0.001
            obj = Wire(o['ns'], *ends[0], *ends[1], r_k, tag=tag)
        geo.append(obj)
    geo.compute_tags()
    for obj, shift in arcs:
        geo.translate(1, shift, tag=obj.tag)
    return Mininec(f, geo, media=media)


def project(m):
    ps = []
    for p in m.pulses:
        ps.append(dict(
            owner=int(p.geobj.n) + 1,
            sa=[int(p.segs[0].geobj.n) + 1, int(p.segs[0].idx) + 1],
            sb=[int(p.segs[1].geobj.n) + 1, int(p.segs[1].idx) + 1],
            gnd=(0 if p.ground[0] else 1 if p.ground[1] else -1),
            sgn=[int(p.dir_sgn[0]), int(p.dir_sgn[1])],
            z0=(p._c_per[0] == 0), z1=(p._c_per[1] == 0)))
    es = [[-1 if e is None else int(e) for e in g.end_segs] for g in m.geo]
    objs = [dict(ns=int(g.n_segments), tag=int(g.tag)) for g in m.geo]
    opulses = [[int(p.idx) for p in g.pulses] for g in m.geo]
    return dict(pulses=ps, endSegs=es, objs=objs, opulses=opulses)


def spec_pulses(rec):
    return [{k: v for k, v in p.items() if k != 'kind'} for p in rec['pulses']]


def decode_lines(m):
    """Coefficient of every pulse current in every J/E line of the CURRENT
       DATA block of the real report, obtained by rendering the block with
       synthetic currents I_p = 5^k (k = position inside a chunk of 8 pulses;
       real channel for even chunks, imaginary for odd) and reading the
       printed numbers back as balanced base-5 digits.  Also returns the
       numbered rows.  -> (lines[o][e] = ('G'|'E'|('J', coefs)), rows[o])"""
    n = len(m.pulses)
    CH = 8
    nchunks = (n + CH - 1) // CH
    ngeo = len(m.geo)
    acc = [[None, None] for _ in range(ngeo)]
    rows = None
    saved = getattr(m, 'current', None)
    try:
        for c0 in range(0, max(nchunks, 1), 2):
            cur = np.zeros(n, dtype=complex)
            for k in range(CH):
                q = c0 * CH + k
                if q < n:
                    cur[q] += 5.0 ** k
                q = (c0 + 1) * CH + k
                if q < n:
                    cur[q] += 1j * 5.0 ** k
            m.current = cur
            text = m.currents_as_mininec()
            blocks = R.parse_current_data(text.split('\n')[2:])
            if len(blocks) != ngeo:
                raise R.ReportError('current blocks %d != objects %d'
                                    % (len(blocks), ngeo))
            rws = []
            for o, (b, g) in enumerate(zip(blocks, m.geo)):
                if b['tag'] != g.tag:
                    raise R.ReportError('current block tag order')
                ls = b['lines']
                numbered = [l for l in ls if l[0] not in ('J', 'E')]
                rws.append([int(l[0]) - 1 for l in numbered])
                # position: a J/E line before the numbered rows is end 1,
                # after them end 2; with no numbered rows the order of
                # appearance decides (end 1 first) and the number of lines
                # expected is (not grounded[0]) + (not grounded[1])
                je = [(i, l) for i, l in enumerate(ls) if l[0] in ('J', 'E')]
                ends_present = [e for e in (0, 1) if not g.is_ground[e]]
                if len(je) != len(ends_present):
                    raise R.ReportError('object %d: %d J/E lines for %d '
                                        'non-grounded ends'
                                        % (o, len(je), len(ends_present)))
                first_num = min([i for i, l in enumerate(ls)
                                 if l[0] not in ('J', 'E')], default=None)
                for (i, l), e in zip(je, ends_present):
                    if first_num is not None:
                        if (e == 0) != (i < first_num):
                            raise R.ReportError('J/E line misplaced')
                    if l[0] == 'E':
                        if any(abs(x) > 0 for x in l[1:]):
                            raise R.ReportError('E line not zero')
                        val = 'E'
                    else:
                        coefs = {}
                        for chan, v in ((0, l[1]), (1, l[2])):
                            digs = _b5(v)
                            for k, d in enumerate(digs):
                                if d:
                                    coefs[(c0 + chan) * CH + k] = d
                        val = ('J', coefs)
                    if acc[o][e] is None:
                        acc[o][e] = val
                    elif val == 'E' or acc[o][e] == 'E':
                        if val != acc[o][e]:
                            raise R.ReportError('J/E kind changes between renders')
                    else:
                        acc[o][e][1].update(val[1])
            rows = rws
    finally:
        if saved is not None:
            m.current = saved
    lines = []
    for o, g in enumerate(m.geo):
        l2 = []
        for e in (0, 1):
            if g.is_ground[e]:
                l2.append('G')
            else:
                l2.append(acc[o][e])
        lines.append(l2)
    return lines, rows


def _b5(v):
    """balanced base-5 digits (-2..2) of the integer nearest to v"""
    n = int(round(v))
    if abs(n - v) > 1e-6 * max(1.0, abs(v)):
        raise R.ReportError('non-integer coefficient sum %r' % v)
    digs = []
    while n != 0:
        d = n % 5
        if d > 2:
            d -= 5
        digs.append(d)
        n = (n - d) // 5
    return digs


def spec_lines(rec):
    res = []
    for o in rec['lines']:
        l2 = []
        for e in o:
            if e['kind'] == 'J':
                l2.append(('J', {q: c for q, c in enumerate(e['coef']) if c}))
            else:
                l2.append(e['kind'])
        res.append(l2)
    return res


def report_geometry(m):
    """(END1, END2, NO.) rows per object block and the wire-block connection
       columns, parsed from the text of the real report"""
    head = R.parse_head(m.wires_as_mininec().split('\n'))
    geom = []
    for b in head['geometry']:
        geom.append(dict(tag=b['tag'], empty=b['empty'],
                         rows=[(r['end1'], r['end2'], r['no']) for r in b['rows']],
                         points=[r['point'] for r in b['rows']]))
    wconn = [(w['conn1'], w['conn2']) for w in head['wires']]
    wtags = [w['tag'] for w in head['wires']]
    nseg = [w['nseg'] for w in head['wires']]
    return geom, wconn, wtags, nseg


# ------------------------------------------------------------------ TLC runs
# (config, simulate-spec or None, ground)
RUNS = {
    'quick': [('MC_Topology_q2.cfg', None, True),
              ('MC_Topology_free2.cfg', None, False),
              ('MC_Topology_curve2.cfg', None, True),
              ('MC_Topology_simcurve.cfg', 'num=300', True),
              ('MC_Topology_sim5.cfg', 'num=800', True),
              ('MC_Topology_simfree5.cfg', 'num=300', False)],
    'thorough': [('MC_Topology_q2.cfg', None, True),
                 ('MC_Topology_free2.cfg', None, False),
                 ('MC_Topology_curve2.cfg', None, True),
                 ('MC_Topology_simcurve.cfg', 'num=3000', True),
                 ('MC_Topology_t3.cfg', None, True),
                 ('MC_Topology_free3.cfg', None, False),
                 ('MC_Topology_sim5.cfg', 'num=8000', True),
                 ('MC_Topology_simfree5.cfg', 'num=3000', False),
                 ('MC_Topology_star.cfg', 'num=4000', True)],
}

def deep_runs(tier):
    return RUNS[tier] + ([('MC_Topology_q4.cfg', None, True)] if tier == 'thorough' else [])


def records(chk, tier, invs, runs=None):
    """Runs TLC for every config of the tier; registers states/transitions
       and spec-level invariant violations with chk; yields (record, ground,
       cfg).  Records are streamed and de-duplicated per run."""
    from . import common as C
    for cfg, sim, ground in (runs or RUNS[tier]):
        res = C.tlc('Topology', cfg, simulate=sim, depth=(16 if sim else None),
                    workers=(8 if sim else None))
        if res.violated:
            if res.violated in invs:
                chk.violation(dict(kind='spec-invariant', invariant=res.violated,
                                   cfg=cfg), dict(tlc_tail=res.out[-3000:]))
            else:
                raise C.Machinery('spec invariant %s (not of this property) '
                                  'violated in %s' % (res.violated, cfg))
        elif not res.ok:
            raise C.Machinery('TLC did not finish cleanly on %s: %s'
                              % (cfg, res.out[-2000:]))
        chk.add_tlc(res)
        chk.cov.setdefault('tlc_runs', []).append(dict(
            cfg=cfg, mode='simulate ' + sim if sim else 'exhaustive',
            states=res.distinct or res.simulated, generated=res.generated,
            wall_s=round(res.wall, 1)))
        n = 0
        for r in res.printed():
            n += 1
            yield r, ground, cfg
        if n == 0:
            raise C.Machinery('no dump records from TLC (%s)' % cfg)


def spec_records(chk, inputs, ground, name='on'):
    """Runs spec/TopologyOn.tla on the given abstract object lists (point ids: free 1..99,
       ground 101..) and returns the dumped records in the order of the inputs.  All Topology
       invariants are checked by TLC on every list."""
    import os, json
    from . import common as C
    if not inputs:
        return []
    wd = C.workdir('on-' + name)
    tf = os.path.join(wd, 'inputs.json')
    inputs = [[dict(o, kind=o.get('kind', 'W')) for o in inp] for inp in inputs]
    json.dump(inputs, open(tf, 'w'))
    nfree = max([p for inp in inputs for o in inp for p in (o['p1'], o['p2']) if p < 100] + [1])
    ngnd = max([p - 100 for inp in inputs for o in inp for p in (o['p1'], o['p2']) if p > 100] + [1])
    cfg = os.path.join(wd, 'On.cfg')
    invs = ['CountFormula', 'ObjectOrder', 'SegJoint', 'JoinedIffSamePoint', 'JunctionCount',
            'OwnerIsLaterTag', 'TagOrder', 'AddrFormsAgree', 'AllOnce', 'KCL', 'FreeEndZero',
            'JunctionEndIsSum', 'ConnectedOnlyIfJoined']
    open(cfg, 'w').write(
        'CONSTANTS NObjMax = 99\n MaxSeg = 999\n NFree = %d\n NGnd = %d\n HasGround = %s\n MaxTag = 99\n MaxCurves = 99\n'
        'INIT InitOn\nNEXT NextOn\n%s\nINVARIANT DumpOn\nINVARIANT RejectOn\nCHECK_DEADLOCK FALSE\n'
        % (nfree, ngnd, 'TRUE' if ground else 'FALSE', '\n'.join('INVARIANT ' + x for x in invs)))
    res = C.tlc('TopologyOn', os.path.relpath(cfg, C.SPEC), name='on-run-' + name, workers=4,
                env=dict(TRACE_FILE=tf), timeout=1500)
    if res.violated:
        raise C.SpecViolation(res.violated, name)
    if not res.ok:
        raise C.Machinery('TLC failed on TopologyOn: ' + res.out[-1500:])
    if chk is not None:
        chk.add_tlc(res)
    out = {}
    for d in res.printed():
        out[d['tid']] = d['rec']
    if len(out) != len(inputs):
        raise C.Machinery('TopologyOn returned %d records for %d inputs' % (len(out), len(inputs)))
    return [out[i + 1] for i in range(len(inputs))]
