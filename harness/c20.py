"""C20 -- the command line is fail-safe.

spec/Cmdline.tla models main() as a staged pipeline; every fault site of
harness/cmdline_sites.py carries the stage at which it takes effect and the
kind of outcome the error-handling design gives it (spec/cmdline_table.json).
TLC composes one to two simultaneous faults (the earliest stage decides),
checks ExactlyOneOutcome / FailSafe on the design and dumps every scenario
with its predicted stage and outcome.  Each scenario is run through the real
main(); the property is decided on the OBSERVED outcome (complete finite
report | one-line diagnostic with 23 | usage error -- anything else is a
violation); the predicted stage/outcome is compared for conformance of the
model (stage events from the hooks).
"""
import os, sys, io, json, re, signal, traceback, contextlib, warnings
import numpy as np
from . import common as C
from . import report as R
from . import cmdline_sites as S
import mininec.mininec as MM

PID = 'C20'


class Timeout(Exception):
    pass


def _alarm(sig, frm):
    raise Timeout()


def classify(argv, want_trace=True):
    """run main(argv) -> dict(kind, stage, exc, func, msg)"""
    out, err = io.StringIO(), io.StringIO()
    if MM._verif_trace is not None:
        del MM._verif_trace[:]
    res = dict(kind=None, stage=None, exc=None, func=None, msg='')
    tmpd = None
    if any('@TMP@' in a for a in argv):
        import tempfile
        os.makedirs(C.WORK, exist_ok=True)
        tmpd = tempfile.mkdtemp(prefix='c20out-', dir=C.WORK)
        argv = [a.replace('@TMP@', os.path.join(tmpd, 'out.txt')) for a in argv]
    signal.signal(signal.SIGALRM, _alarm)
    signal.alarm(120)
    try:
        with warnings.catch_warnings():
            warnings.simplefilter('ignore')
            with contextlib.redirect_stdout(out), contextlib.redirect_stderr(err):
                with np.errstate(all='ignore'):
                    rc = MM.main(list(argv), f_err=err)
    except SystemExit as e:
        res['kind'] = 'usage' if e.code == 2 else 'exit-%r' % (e.code,)
        rc = None
    except Timeout:
        res['kind'] = 'timeout'
        rc = None
    except BaseException as e:      # noqa
        res['kind'] = 'crash'
        res['exc'] = type(e).__name__
        tb = traceback.extract_tb(e.__traceback__)
        fn = [f.name for f in tb if 'mininec' in f.filename]
        res['func'] = fn[-1] if fn else (tb[-1].name if tb else None)
        res['msg'] = str(e)[:160]
        rc = None
    finally:
        signal.alarm(0)
        if tmpd:
            import shutil
            shutil.rmtree(tmpd, ignore_errors=True)
    if MM._verif_trace is not None:
        st = [e['name'] for e in MM._verif_trace if e['ev'] == 'Stage']
        res['stage'] = st[-1] if st else None
        res['stages'] = st
        del MM._verif_trace[:]
    if res['kind']:
        return res
    so, se = out.getvalue(), err.getvalue()
    if rc == 23:
        lines = [l for l in (so + se).split('\n') if l.strip()]
        if len(lines) == 1:
            res['kind'] = 'diag'
            res['msg'] = lines[0][:160]
        else:
            res['kind'] = 'diag-malformed'
            res['msg'] = '%d lines with return 23' % len(lines)
        return res
    if rc is not None and rc != 0:
        res['kind'] = 'bad-return'
        res['msg'] = repr(rc)
        return res
    if R.has_nonfinite(so):
        res['kind'] = 'nonfinite'
        m = R.TOKEN_BAD.search(so)
        ls = so.rfind('\n', 0, m.start()) + 1
        res['msg'] = so[ls:so.find('\n', m.start())][:160]
        # which block
        blocks = [t for t, l in R.split_blocks(so[:m.start()])]
        res['func'] = blocks[-1] if blocks else 'HEAD'
        res['stage'] = 'step_print'
        # the directive gain is a logarithm of (radiated / input power): with sources and active ("negative
        # resistance") loads that together take no power from the generators it is undefined
        pw = [float(x) for x in re.findall(r'POWER = *(\S+) +WATTS', so[:m.start()])]
        if res['func'] == 'PATTERN DATA' and pw and sum(pw) <= 0:
            res['cause'] = 'nonpositive-input-power'
        return res
    try:
        rep = R.parse_report(so)
        if not rep['steps']:
            raise R.ReportError('no SOURCE DATA block')
        for st_ in rep['steps']:
            if st_['currents'] is None:
                raise R.ReportError('no CURRENT DATA block')
        res['kind'] = 'report'
        res['stage'] = 'done'
    except R.ReportError as e:
        res['kind'] = 'partial-report'
        res['msg'] = str(e)[:160]
    return res


def run_case(args):
    sid_list, argv = args
    return classify(argv)


# ------------------------------------------------------------ table bootstrap / check

def observe_singles():
    sites = S.sites()
    items = sorted(sites.items())
    outs = C.parallel_map(run_case, [([k], v['argv']) for k, v in items], chunksize=4)
    return {k: o for (k, v), o in zip(items, outs)}


def bootstrap():
    """(re)creates spec/cmdline_table.json from the observed behaviour of all
       single-fault sites; run by hand when the site list changes (tools/)."""
    obs = observe_singles()
    table = {}
    for k, o in obs.items():
        kind = o['kind']
        stage = o['stage'] or 'argparse'
        table[k] = dict(stage=stage, kind=kind, exc=o['exc'], func=o['func'])
    json.dump(table, open(S.TABLE, 'w'), indent=0, sort_keys=True)
    return table


def gen_tla(table):
    """spec/MC_Cmdline_table.tla from the table (sites as integers)"""
    ids = sorted(table)
    groups = sorted({site_group(k) for k in ids})
    lines = ['--------------------------- MODULE MC_Cmdline_table ---------------------------',
             '\\* generated by harness/c20.py from spec/cmdline_table.json -- do not edit',
             'EXTENDS Naturals, Sequences',
             'NSites == %d' % len(ids),
             'StageNames == <<%s>>' % ', '.join('"%s"' % s for s in S.STAGES)]
    def fn(name, vals):
        return '%s == <<%s>>' % (name, ', '.join(vals))
    lines.append(fn('SiteStage', [str(S.STAGES.index(table[k]['stage']) + 1 if table[k]['stage'] in S.STAGES else 1) for k in ids]))
    KMAP = {'usage': 'usage', 'diag': 'diag', 'report': 'report', 'crash': 'crash',
            'nonfinite': 'nonfinite'}
    lines.append(fn('SiteKind', ['"%s"' % KMAP.get(table[k]['kind'], 'crash') for k in ids]))
    lines.append(fn('SiteGroup', [str(groups.index(site_group(k)) + 1) for k in ids]))
    lines.append(fn('SiteBase', [str(sorted(S.BASES).index(k.split('/')[0]) + 1) for k in ids]))
    lines.append('=============================================================================')
    open(os.path.join(C.SPEC, 'MC_Cmdline_table.tla'), 'w').write('\n'.join(lines) + '\n')
    return ids


def site_group(k):
    parts = k.split('/')
    return parts[0] + '/' + parts[1].split('#')[0]


BAD = ('crash', 'nonfinite', 'partial-report', 'diag-malformed', 'bad-return', 'timeout')


def fault_key(sid):
    """the fault of a site without the base command line it was planted in and without the index of the option
       instance: 'media/wire#3/7/inf' -> 'wire/7/inf' (option wire, field 7, value inf)"""
    if sid is None:
        return None
    return '+'.join('/'.join([p.split('/')[1].split('#')[0]] + p.split('/')[2:]) if p.split('/')[1] != 'x' else p
                    for p in sid.split('+'))


def signature(sid_fired, o):
    return dict(kind=o['kind'], site=fault_key(sid_fired), exc=o['exc'], func=o['func'], cause=o.get('cause'))


def run(tier):
    chk = C.Check(PID, tier, 'fault_enumeration')
    chk.assumptions = [
        'fault sites = every comma separated field of every option of four base command lines replaced by each of '
        '(empty, x, 0, -1, 1e300, nan, inf, 1e-300, 99, 1e29, -1e29, 1e-29, 1_0, 1e, 0.5), arity changes, options given twice or omitted, and a list of '
        'contradictory / degenerate combinations (harness/cmdline_sites.py)',
        'TLC 1.8 on spec/Cmdline.tla with the site table spec/cmdline_table.json (stage and outcome kind per site)',
        'main() is run in-process with stdout/stderr captured; numpy warnings are not diagnostics']
    table = S.load_table()
    sites = S.sites()
    missing = [k for k in sites if k not in table]
    if missing:
        raise C.Machinery('sites without table entry (run tools/c20_bootstrap.py): %s' % missing[:5])
    ids = gen_tla({k: table[k] for k in sites})
    cfg = 'MC_Cmdline_quick.cfg' if tier == 'quick' else 'MC_Cmdline_thorough.cfg'
    sim = 'num=400' if tier == 'quick' else 'num=4000'
    # singles exhaustively
    res1 = C.tlc('Cmdline', 'MC_Cmdline_single.cfg')
    chk.add_tlc(res1)
    res2 = C.tlc('Cmdline', 'MC_Cmdline_pairs.cfg', simulate=sim, depth=40, workers=8)
    chk.add_tlc(res2)
    runs = [res1, res2]
    # liveness under weak fairness: every run of the pipeline ends (Termination)
    rl = C.tlc('Cmdline', 'MC_Cmdline_live.cfg', name='cmdline-live')
    chk.add_tlc(rl)
    if rl.violated or not rl.ok:
        chk.violation(dict(kind='spec-liveness', property='Termination'), dict(tail=rl.out[-2000:]))
    if tier != 'quick':
        res3 = C.tlc('Cmdline', 'MC_Cmdline_triples.cfg', simulate='num=3000', depth=40, workers=8)
        chk.add_tlc(res3)
        runs.append(res3)
    for r in runs:
        if r.violated in ('DiagBeforeOutput', 'DiagStopsEarly'):
            chk.violation(dict(kind='spec-invariant', invariant=r.violated), dict(tail=r.out[-2000:]))
        elif r.violated and r.violated != 'FailSafe':
            raise C.Machinery('Cmdline spec invariant %s violated' % r.violated)
        if not r.ok and not r.violated:
            raise C.Machinery('TLC failed on Cmdline: ' + r.out[-1500:])
    failing_keys = {}
    for k, v in table.items():
        if v['kind'] in BAD:
            failing_keys.setdefault(fault_key(k), set()).add((v['kind'], v['exc'], v['func']))
    scen = {}
    for rec in [x for r in runs for x in r.printed()]:
        key = tuple(rec['faults'])
        scen[key] = rec
    if not scen:
        raise C.Machinery('no scenarios from TLC')
    jobs = []
    for key, rec in sorted(scen.items()):
        sl = [ids[i - 1] for i in key]
        argv = compose(sites, sl)
        if argv is None:
            continue
        jobs.append((sl, argv, rec))
    outs = C.parallel_map(run_case, [(sl, argv) for sl, argv, rec in jobs], chunksize=4)
    agree = 0
    pess = 0
    stage_agree = 0
    stage_differs = []
    for (sl, argv, rec), o in zip(jobs, outs):
        pred_kind = rec['outcome']
        fired = ids[rec['fired'] - 1] if rec['fired'] else None
        chk.case(dict(s=sl), len(sl) >= 1 and sl[0].split('/')[1] != 'valid',
                 sample=dict(sites=sl, argv=argv, predicted=pred_kind, observed=o['kind'],
                             stage=o['stage']))
        if o['kind'] in BAD:
            # attribute to the site the design says fires first, else to the first site
            sid = fired or (sl[0] if sl else None)
            if len(sl) >= 2 and fired is None:
                sid = '+'.join(sl)
            # with several faults the failure is attributed to the site the design says fires first;
            # if that attribution is not a recorded finding, the other present site is tried (two
            # faults of one stage, or a fault that changes when the other one takes effect)
            cands = [sid] + [x for x in sl if x != sid]
            is_known = lambda sg: any(all(C._match(sg.get(k), v) for k, v in f['match'].items()) for f in chk.findings)
            known = [x for x in cands if is_known(signature(x, o))]
            sg = signature(known[0] if known else sid, o)
            if not known and len(sl) >= 2:
                # two faults: a fault whose value is recorded as reaching the computation unchecked (it fails on
                # its own in some base command) is the same finding when the second fault merely changes WHERE the
                # bad number surfaces (e.g. no tapering -> no taper assertion -> the report writer instead)
                for x in sl:
                    for t in failing_keys.get(fault_key(x), ()):
                        alt = dict(kind=t[0], site=fault_key(x), exc=t[1], func=t[2], cause=None)
                        if is_known(alt):
                            sg = dict(alt, surfaces_as=[o['kind'], o['exc'], o['func']])
                            break
                    else:
                        continue
                    break
            chk.violation(sg, dict(sites=sl, argv=argv, observed=o, predicted=rec))
        elif pred_kind in ('crash', 'nonfinite'):
            pess += 1
        if o['kind'] == pred_kind:
            agree += 1
        # conformance of the stage model: the last Stage event of the real run is the stage at
        # which the specification says the pipeline stops
        if o['stage'] is not None:
            chk.traces += 1
            if o['kind'] in ('diag', 'usage', 'crash') and o['stage'] == rec['stage']:
                stage_agree += 1
            elif o['kind'] in ('diag', 'usage', 'crash'):
                stage_differs.append((sl, rec['stage'], o['stage']))
    diverged = validate_stage_traces(chk, [(j[1], o) for j, o in zip(jobs, outs)])
    chk.cov['predicted_outcome_agrees'] = agree
    chk.cov['stopping_stage_agrees'] = stage_agree
    chk.cov['stopping_stage_differs'] = len(stage_differs)
    chk.cov['stopping_stage_differs_examples'] = stage_differs[:5]
    chk.cov['model_predicts_failure_but_code_is_fine'] = pess
    chk.cov['scenarios_single'] = sum(1 for j in jobs if len(j[0]) <= 1)
    chk.cov['scenarios_pairs'] = sum(1 for j in jobs if len(j[0]) == 2)
    chk.cov['scenarios_triples'] = sum(1 for j in jobs if len(j[0]) == 3)
    rc = chk.finish(
        rule='one case per TLC scenario (no fault, every single fault site, simulated pairs of faults on different '
             'option groups of one base command); non-trivial = at least one fault; distinct by site ids')
    if rc == 0 and diverged:
        raise C.Machinery(diverged[0])
    return rc


def validate_stage_traces(chk, runs):
    """code -> spec: the Stage events of every real run are a behaviour of the pipeline (TraceCmdline.tla, one
       batched TLC run over the distinct (stage sequence, outcome) pairs); a diagnostic after the frequency loop
       was entered is a property violation, any other rejection a divergence of model and hooks (exit 2)"""
    seen = {}
    for argv, o in runs:
        if not o.get('stages'):
            continue
        key = (tuple(o['stages']), o['kind'])
        seen.setdefault(key, argv)
    if not seen:
        raise C.Machinery('no stage traces recorded (hooks not active?)')
    keys = sorted(seen)
    # self-test of the binding: a real stage sequence with two neighbouring stages swapped must be rejected
    longest = max(keys, key=lambda k_: len(k_[0]))
    if len(longest[0]) >= 6:
        st_ = list(longest[0])
        st_[3], st_[4] = st_[4], st_[3]
        probe = (tuple(st_), 'probe')
        keys = keys + [probe]
        seen[probe] = ['(self-test)']
    else:
        probe = None
    wd = C.workdir('trace-c20')
    tf = os.path.join(wd, 'traces.json')
    json.dump([dict(st=list(k[0]), end=k[1]) for k in keys], open(tf, 'w'))
    res = C.tlc('TraceCmdline', 'MC_TraceCmdline.cfg', name='trace-run-c20', workers=1, env=dict(TRACE_FILE=tf))
    chk.add_tlc(res)
    verdicts = []
    for line in open(res.path):
        m = re.match(r'^<<"TV", (\d+), (\d+), (\d+), (\d+)>>', line)
        if m:
            verdicts.append(tuple(int(x) for x in m.groups()))
    if len(verdicts) != len(keys):
        raise C.Machinery('stage trace validation produced %d verdicts for %d traces: %s' % (len(verdicts), len(keys), res.out[-1200:]))
    if probe is not None:
        t, matched, expected, code = verdicts[-1]
        if matched == expected:
            raise C.Machinery('TraceCmdline accepted a stage sequence with two stages swapped: the trace validation is vacuous')
        keys, verdicts = keys[:-1], verdicts[:-1]
    chk.cov['stage_traces_validated'] = len(keys)
    chk.cov['stage_trace_events'] = sum(len(k[0]) for k in keys)
    diverged = []
    for t, matched, expected, code in verdicts:
        st, kind = keys[t - 1]
        if code == 1:
            chk.violation(dict(kind='diagnostic-after-the-frequency-loop-started', last_stage=st[-1]),
                          dict(argv=seen[keys[t - 1]], stages=list(st), outcome=kind))
        elif code == 2:
            chk.violation(dict(kind='report-did-not-end-in-the-print-stage', last_stage=st[-1]),
                          dict(argv=seen[keys[t - 1]], stages=list(st), outcome=kind))
        elif matched != expected:
            diverged.append('stage trace rejected by TraceCmdline at event %d of %d (%s; argv %s): model and hooks diverge'
                            % (matched, len(st), st[max(0, matched - 2):matched + 1], seen[keys[t - 1]]))
    return diverged


def compose(sites, sl):
    """argv for several simultaneous faults on one base: apply each site's
       group replacement to the base (sites are on different groups)"""
    if not sl:
        return None
    if len(sl) == 1:
        return sites[sl[0]]['argv']
    base = sites[sl[0]]['base']
    groups = S.BASES[base]
    valid = sites[base + '/valid']['argv']
    # token-level diff of each single site against the valid command
    argv = []
    repl = {}
    extra = []
    for sid in sl:
        st = sites[sid]
        if st['group'] == 'x':
            va = list(valid)
            a = list(st['argv'])
            # extras are appended at the end (or a group removed): take the suffix
            k = 0
            while k < len(va) and k < len(a) and va[k] == a[k]:
                k += 1
            if k == len(va):
                extra += a[k:]
            else:
                return None
        else:
            repl[st['group']] = sid
    for g, toks in groups:
        if g in repl:
            st = sites[repl[g]]
            # recover the replaced tokens of this group from the single-fault argv
            pre = []
            for g2, t2 in groups:
                if g2 == g:
                    break
                pre += t2
            post = []
            seen = False
            for g2, t2 in groups:
                if seen:
                    post += t2
                if g2 == g:
                    seen = True
            a = st['argv']
            mid = a[len(pre):len(a) - len(post)] if post else a[len(pre):]
            argv += mid
        else:
            argv += toks
    return argv + extra


def replay(path):
    d = json.load(open(path))['detail']
    o = classify(d['argv'])
    print(json.dumps(o, indent=1))
    return 1 if o['kind'] in BAD else 0
