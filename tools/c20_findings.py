#!/usr/bin/env python3
"""Regenerates the C20 entries of known_findings.json from spec/cmdline_table.json: one entry per failure family
(outcome kind, exception type, innermost function), each listing EXACTLY the faults (option / field / value, without the base command line) observed to fail when the
table was built -- a site that starts to fail later is not covered.  Run by hand together with c20_bootstrap.py."""
import json, re, collections, sys
sys.path.insert(0, '/verif'); sys.path.insert(0, '/repo')
from harness.c20 import fault_key
T = json.load(open('/verif/spec/cmdline_table.json'))
KF = json.load(open('/verif/known_findings.json'))
DESC = {
 ('crash', 'format_float'): ('a non-finite, astronomically large / small or otherwise degenerate option value is accepted by the parser, produces NaN / infinity / overflow internally and ends in an uncaught ValueError / OverflowError in util.format_float while the report is written',
                             'needs a finiteness / range validation of every numeric option value (about 40 parse sites in main) or a redesign of the error handling around compute and report writing; not a small patch'),
 ('crash', 'taper1'): ('tapering preconditions are assertions: degenerate taper limits or non-finite geometry on a tapered wire end in an uncaught AssertionError from taper1',
                       'turning the assertions of mininec/taper.py into diagnostics changes which parameter sets silently fall back to equal segmentation; needs a design decision'),
 ('crash', 'taper2'): ('tapering preconditions are assertions: degenerate taper limits or non-finite geometry on a wire tapered from both ends end in an uncaught AssertionError from taper2', 'see taper1'),
 ('crash', 'compute_near_field'): ('a near-field start or increment that is nan / inf, or an increment of 0 with a count above 1, ends in an uncaught ValueError from numpy.arange in compute_near_field', 'increment 0 with count 1 is legitimate; needs a decision on the grid construction'),
 ('nonfinite', 'PATTERN DATA'): ('NaN or infinity is printed in the far-field table (negative far-field power, degenerate load coefficients, frequency 1e-300)', 'same validation as for format_float'),
 ('nonfinite', 'HEAD'): ('infinity is printed in the load listing for a non-finite Laplace coefficient', 'same validation as for format_float'),
 ('crash', 'f'): ('a frequency (or swept frequency) of 1e300 overflows in the frequency setter', 'the start frequency is validated for sign and finiteness only (fix 0c77081); an upper bound is a design decision'),
 ('crash', 'add'): ('a closed curve (360 degree arc) whose closing point is the end of an EARLIER-tagged wire ends in an uncaught AssertionError in Connected_Geobj.add -- the same defect as the recorded finding C12-closed-curve-on-earlier-end, seen from the command line',
                    'Connected_Geobj keys its links and signs by object, one link per object and end; linking an object twice needs a redesign of that class (see C12-closed-curve-on-earlier-end)'),
 ('crash', 'compute_currents'): ('two identical wires give a singular system matrix; numpy.linalg.LinAlgError escapes main()', 'needs a diagnostic around the solver and a decision what to print'),
 ('crash', 'r'): ('insulation with relative permittivity 0 ends in ZeroDivisionError', 'one more validation site'),
 ('crash', '__init__'): ('skin effect with resistivity 0 ends in ZeroDivisionError', 'one more validation site'),
}
fam = collections.defaultdict(list)
for k, v in T.items():
    if v['kind'] in ('usage', 'diag', 'report'):
        continue
    exc = v['exc']
    if v['func'] == 'format_float':
        exc = 'ValueError|OverflowError'     # which of the two depends on the first bad number printed
    fam[(v['kind'], exc, v['func'])].append(fault_key(k))
KF['findings'] = [f for f in KF['findings'] if f['property'] != 'C20']
for (kind, exc, func), sites in sorted(fam.items()):
    what, why = DESC.get((kind, func), ('uncaught failure (%s %s in %s)' % (kind, exc, func), 'not analysed'))
    sites = sorted(set(sites))
    match = dict(kind=kind, site={'re': '|'.join(re.escape(s) for s in sites)})
    if exc:
        match['exc'] = {'re': exc} if '|' in exc else exc
    if func:
        match['func'] = func
    KF['findings'].append(dict(id='C20-%s-%s-%s' % (kind, (exc or 'none').replace('|', '+'), func), property='C20', status='open', match=match,
                               what=what + ' [%d listed fault sites, e.g. %s]' % (len(sites), sorted(sites)[0]),
                               why_not_fixed=why, example=sorted(sites)[0]))
json.dump(KF, open('/verif/known_findings.json', 'w'), indent=1)
print(len(fam), 'C20 families,', sum(len(s) for s in fam.values()), 'sites')
