#!/usr/bin/env python3
"""Regenerates /verif/MANIFEST.json from the table below (single source of truth)."""
import json, os
ROOT = os.path.dirname(os.path.dirname(os.path.abspath(__file__)))

CHECKS = {}
NA = {}

def check(pid, cat, text, note, technique, design, engine='tlc+replay'):
    CHECKS[pid] = dict(
        property_id=pid,
        quick_cmd='bin/check %s --tier quick' % pid,
        thorough_cmd='bin/check %s --tier thorough' % pid,
        evidence_file='/verif/evidence/%s.json' % pid,
        replay_cmd_template='bin/check %s --replay {path}' % pid,
        engine=engine,
        level_claimed=dict(category=cat, text=text, design_ref=design),
        level_note=note, technique=technique)

exec(open(os.path.join(ROOT, 'tools', 'checks_table.py')).read())

ALL = ['C%02d' % i for i in range(1, 21)]
for p in ALL:
    assert (p in CHECKS) != (p in NA), p

man = dict(
    version=1,
    setup_cmd='make -C /verif setup',
    hooks=dict(guard='PYMININEC_VERIF',
               enable='export PYMININEC_VERIF=1 (set by bin/check); the repo is imported from its sources, no build step',
               baseline_off_cmd='cd /repo && env -u PYMININEC_VERIF /venv/bin/python -m pytest -ra -q -p no:cacheprovider --timeout=900 --continue-on-collection-errors',
               source_commits=HOOK_COMMITS, add_only=True),
    engines=[dict(name='tlc+replay', path='/verif/bin/check',
                  serves_properties=sorted(CHECKS),
                  kind_free_text='TLA+ specifications in /verif/spec checked with TLC 1.8 (one of them, LifecycleInd, additionally with Apalache 0.58: inductive invariant, inside the C14 check); TLC-generated behaviours/final states are replayed into the real pymininec code and traces projected from the real code are validated against the specifications (harness/*.py)')],
    checks=[CHECKS[p] for p in sorted(CHECKS)],
    not_applicable=[dict(property_id=p, reason=NA[p]) for p in sorted(NA)],
    notes=NOTES)
json.dump(man, open(os.path.join(ROOT, 'MANIFEST.json'), 'w'), indent=1)
print('MANIFEST.json: %d checks, %d not applicable' % (len(CHECKS), len(NA)))
