#!/usr/bin/env python3
"""Automatic first-order mutants of the property-relevant functions of mininec/mininec.py, run against the quick
checks in a scratch worktree of /repo (never /repo itself).  Complements the seeds written by sub-agents: it samples
operator slips uniformly over the code instead of following somebody's idea of a plausible mistake.  For every mutant
the checks are run in a fixed order until one reports a violation; mutants no check catches are listed with the
result of the repository's own test suite, for manual analysis (equivalent mutant / outside every listed property /
gap in a check).  Usage: auto_mutants.py [--n N] [--seed S]        (not a registered check)"""
import sys, os, re, ast, json, random, subprocess, shutil
ROOT = os.path.dirname(os.path.dirname(os.path.abspath(__file__)))
WT = '/tmp/automut-%d/repo' % os.getpid()
ORDER = ['C12', 'C09', 'C17', 'C07', 'C08', 'C10', 'C02', 'C04', 'C13', 'C05', 'C16', 'C19', 'C20', 'C14', 'C03',
         'C06', 'C11', 'C18', 'C15']
FUNCS = {'compute_connections', '_add_conn', 'compute_tags', 'compute_ground', 'compute_impedance_matrix',
         'compute_impedance_matrix_loads', 'compute_rhs', 'compute', 'compute_far_field', 'compute_near_field',
         'nf_helper', 'scalar_potential', 'vector_potential', 'register_load', 'register_source', 'fix_distributed_loads',
         'impedance', 'add_pulse', 'as_cmdline', 'as_cmdline_load_attach', 'as_basic_input', 'currents_as_mininec',
         'sources_as_mininec', 'loads_as_mininec', 'source_data_as_mininec', 'as_mininec', 'angle_deg', 'scale',
         'rotate', 'translate', 'compute_equal_segments', 'compute_segments', 'f', 'idx', 'is_connected', 'add',
         'pulse_iter', 'geo_pulses', 'power', 'current', 'compute_endpoints'}
OPS = [(' + ', ' - '), (' - ', ' + '), (' < ', ' <= '), (' <= ', ' < '), (' > ', ' >= '), (' >= ', ' > '),
       (' == ', ' != '), (' != ', ' == '), (' and ', ' or '), (' or ', ' and '), (' [0]', ' [1]'), (' [1]', ' [0]'),
       (' [-1]', ' [0]'), (' * ', ' / '), ('+= ', '-= '), (' not ', ' '), (' 2 ', ' 1 '), (' 0.5', ' 0.25'),
       (' is None', ' is not None'), (' is not None', ' is None')]


def sh(cmd, **kw):
    return subprocess.run(cmd, shell=True, capture_output=True, text=True, **kw)


def candidate_lines(path):
    src = open(path).read()
    tree = ast.parse(src)
    lines = src.split('\n')
    out = []
    for node in ast.walk(tree):
        if isinstance(node, (ast.FunctionDef,)) and (not FUNCS or node.name in FUNCS) and not node.name.startswith('_taper_fmt') and node.name not in ('taper_print', '_fmt', '__str__', '__repr__'):
            body = node.body
            start = body[0].end_lineno + 1 if (isinstance(body[0], ast.Expr) and isinstance(getattr(body[0], 'value', None), ast.Constant)
                                               and isinstance(body[0].value.value, str)) else body[0].lineno
            for ln in range(start, node.end_lineno + 1):
                t = lines[ln - 1]
                if t.strip().startswith('#') or not t.strip() or '_vtrace' in t or '_verif' in t:
                    continue
                for a, b in OPS:
                    if a in t.split('#')[0]:
                        out.append((ln, a, b, node.name))
    return out


def main():
    n = 60
    seed = 0
    a = sys.argv[1:]
    if '--n' in a:
        n = int(a[a.index('--n') + 1])
    if '--seed' in a:
        seed = int(a[a.index('--seed') + 1])
    rel = 'mininec/mininec.py'
    if '--file' in a:
        rel = a[a.index('--file') + 1]
        FUNCS.clear()            # every function of that file
    os.makedirs(os.path.dirname(WT), exist_ok=True)
    sh('git -C /repo worktree add --detach %s HEAD' % WT)
    env = dict(os.environ, VERIF_REPO=WT, VERIF_NOEVIDENCE='1', VERIF_WORK=os.path.dirname(WT) + '/work',
               VERIF_REPL=os.path.dirname(WT) + '/replays', VERIF_CPUS=os.environ.get('VERIF_CPUS', '8'))
    path = WT + '/' + rel
    res = []
    try:
        cands = candidate_lines(path)
        rnd = random.Random(seed)
        rnd.shuffle(cands)
        seen = set()
        for ln, x, y, fn in cands:
            if len(res) >= n:
                break
            if ln in seen:
                continue
            seen.add(ln)
            sh('git checkout -- .', cwd=WT)
            lines = open(path).read().split('\n')
            code, _, com = lines[ln - 1].partition('#')
            lines[ln - 1] = code.replace(x, y, 1) + (('#' + com) if com else '')
            open(path, 'w').write('\n'.join(lines))
            r = sh('/venv/bin/python -c "import mininec.mininec"', cwd=WT)
            if r.returncode:
                continue
            caught = None
            broken = []
            for c in ORDER:
                p = subprocess.run('timeout 1500 %s/bin/check %s --tier quick' % (ROOT, c), shell=True, env=env,
                                   capture_output=True, text=True)
                if p.returncode == 1 and 'VIOLATION property=' in p.stdout:
                    caught = c
                    break
                if p.returncode not in (0, 1):
                    broken.append(c)
            rec = dict(line=ln, func=fn, op='%r -> %r' % (x, y), text=lines[ln - 1].strip()[:120], caught_by=caught, exit2=broken)
            if caught is None:
                t = sh('/venv/bin/python -m pytest -q -p no:cacheprovider --timeout=900 -q 2>&1 | tail -6', cwd=WT,
                       env=dict(os.environ, PYTHONPATH=WT))
                fails = re.findall(r'FAILED (\S+)', t.stdout)
                rec['suite'] = 'killed by ' + ','.join(f.split('::')[-1] for f in fails) if fails and not all(
                    'test_vertical_ideal_ground_near' in f or 'test_timing' in f for f in fails) else 'survives the suite'
            res.append(rec)
            print(json.dumps(rec), flush=True)
    finally:
        sh('git -C /repo worktree remove --force %s' % WT)
        sh('git -C /repo worktree prune')
        shutil.rmtree(os.path.dirname(WT), ignore_errors=True)
        json.dump(res, open(os.path.join(ROOT, 'automut_result_%s_%d.json' % (os.path.basename(rel)[:-3], seed)), 'w'), indent=1)
        nc = sum(1 for r in res if r['caught_by'])
        print('mutants %d caught %d not caught %d' % (len(res), nc, len(res) - nc))


if __name__ == '__main__':
    main()
