#!/bin/sh
# tools/try_patch.sh <patch.diff> <ID> [<ID>...]   -- apply a seeded change to /repo, run the
# quick checks, and restore /repo straight afterwards.  Not a registered check.
patch=$1; shift
cd /repo || exit 2
git diff --quiet || { echo "repo has uncommitted changes"; exit 2; }
git apply "$patch" 2>/dev/null || git apply -C1 "$patch" 2>/dev/null || { echo "patch does not apply"; git checkout -- .; exit 2; }
trap 'git -C /repo checkout -- .' EXIT INT TERM
/venv/bin/python -c "import mininec.mininec, mininec.pulse, mininec.taper" 2>/dev/null || { echo "patched tree does not import (patch misapplied?)"; exit 2; }
for id in "$@"; do
  out=$(VERIF_NOEVIDENCE=1 /verif/bin/check "$id" --tier ${TIER:-quick} 2>&1); rc=$?
  echo "== $id rc=$rc"; echo "$out" | grep -E "VIOLATION|KNOWN-FINDING|MACHINERY|evaluations=" | head -${LINES_MAX:-8}
done
