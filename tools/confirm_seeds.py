#!/usr/bin/env python3
"""Confirms sub-agent fault seeds in their scratch worktrees and files the confirmed ones under
/verif/seeded/<ID>-<mut>/ (patch.diff, demo.py, meta.json).  Usage: confirm_seeds.py C09 C12 ..."""
import sys, os, json, subprocess, shutil, re, concurrent.futures as cf
PY = '/venv/bin/python'

def sh(cmd, cwd, timeout=1500):
    p = subprocess.run(cmd, cwd=cwd, shell=True, capture_output=True, text=True, timeout=timeout,
                       env=dict(os.environ, PYTHONPATH=cwd, PYTHONDONTWRITEBYTECODE='1'))
    return p.returncode, (p.stdout + p.stderr)

BASE = os.environ.get('SEED_BASE', '/tmp/seed')
MUTS = tuple(os.environ.get('SEED_MUTS', 'mutA,mutB').split(','))


def confirm(pid):
    wt = BASE + '/' + pid
    res = []
    for mut in MUTS:
        diff = '%s/%s_%s.diff' % (wt, pid, mut)
        demo = '%s_%s_demo.py' % (pid, mut)
        meta = '%s/%s_%s_meta.json' % (wt, pid, mut)
        if os.environ.get('SEED_LAYOUT') == 'dir':      # round 3: <wt>/out/<mut>/{patch.diff,demo.py,meta.json}
            diff = '%s/out/%s/patch.diff' % (wt, mut)
            demo = 'out/%s/demo.py' % mut
            meta = '%s/out/%s/meta.json' % (wt, mut)
        if not (os.path.exists(diff) and os.path.exists(os.path.join(wt, demo))):
            res.append((pid, mut, 'missing files')); continue
        dest = '/verif/seeded/%s-%s' % (pid, mut)
        if os.path.exists(dest + '/meta.json'):
            res.append((pid, mut, 'already filed')); continue
        sh('git checkout -- mininec', wt)
        rc0, o0 = sh('%s %s' % (PY, demo), wt)
        rca, oa = sh('git apply %s' % diff, wt)
        if rca:
            res.append((pid, mut, 'patch does not apply: ' + oa[-200:])); continue
        rc1, o1 = sh('%s %s' % (PY, demo), wt)
        rct, ot = sh('%s -m pytest -q -p no:cacheprovider --timeout=900 test' % PY, wt)
        sh('git checkout -- mininec', wt)
        tail = [l for l in ot.strip().split('\n') if ' passed' in l or ' failed' in l][-1:] or ['?']
        failed = re.findall(r'FAILED (\S+)', ot)
        # test_timing asserts wall-clock bounds and fails under CPU load: re-run it alone
        if any('test_timing' in f for f in failed):
            rc2, o2 = sh('git apply %s; %s -m pytest -q -p no:cacheprovider test -k test_timing; git checkout -- mininec' % (diff, PY), wt)
            if '1 passed' in o2:
                failed = [f for f in failed if 'test_timing' not in f]
                tail = [tail[0] + ' (test_timing passes when run alone)']
        ok_tests = all('test_vertical_ideal_ground_near' in f for f in failed) and ('171 passed' in tail[0] or '170 passed' in tail[0])
        verdict = 'confirmed' if (rc0 == 0 and rc1 != 0 and ok_tests) else 'rejected'
        info = dict(demo_rc_pristine=rc0, demo_rc_mutant=rc1, tests=tail[0], failed=failed, verdict=verdict)
        if verdict == 'confirmed':
            os.makedirs(dest, exist_ok=True)
            shutil.copy(diff, dest + '/patch.diff')
            shutil.copy(os.path.join(wt, demo), dest + '/demo.py')
            m = {}
            try:
                m = json.load(open(meta))
            except Exception:
                pass
            m2 = dict(property=pid, mutation=mut, summary=m.get('summary'),
                      needs_to_manifest=m.get('needs_to_manifest'), files_changed=m.get('files_changed'),
                      confirmed_by=dict(
                          what_i_ran=['demo on pristine worktree (exit %d)' % rc0,
                                      'git apply patch.diff; demo (exit %d)' % rc1,
                                      'pytest -q -p no:cacheprovider --timeout=900 test with the patch: ' + tail[0],
                                      'git checkout -- mininec'],
                          demo_output_mutant_tail=o1[-600:]),
                      caught_by=None)
            json.dump(m2, open(dest + '/meta.json', 'w'), indent=1)
        res.append((pid, mut, json.dumps(info)))
    return res

if __name__ == '__main__':
    with cf.ThreadPoolExecutor(6) as ex:
        for r in ex.map(confirm, sys.argv[1:]):
            for x in r:
                print(*x)
