#!/bin/sh
# tools/rebase_seed.sh <seed-dir>  -- regenerate seeded/<x>/patch.diff against the current /repo HEAD when hook or fix
# commits moved its context: applied with fuzz in a scratch worktree outside /repo and /verif, the result must import
# and must change exactly as many lines as the original; the original is kept as patch.orig.diff.  Not a check.
d=$(cd "$1" && pwd); wt=/tmp/rebase-$$
git -C /repo worktree add -q --detach $wt HEAD || exit 2
trap 'git -C /repo worktree remove --force '$wt'; git -C /repo worktree prune' EXIT INT TERM
cd $wt || exit 2
if git apply "$d/patch.diff" 2>/dev/null; then echo "applies cleanly: $1"; exit 0; fi
patch -p1 -F3 -N --no-backup-if-mismatch < "$d/patch.diff" >/dev/null 2>&1 || { echo "CANNOT rebase $1"; exit 1; }
find . -name '*.orig' -o -name '*.rej' | xargs -r rm -f
/venv/bin/python -c "import mininec.mininec, mininec.pulse, mininec.taper" 2>/dev/null || { echo "rebased tree does not import: $1"; exit 1; }
a=$(grep -c '^[-+][^-+]' "$d/patch.diff"); git diff > /tmp/rebased-$$.diff; b=$(grep -c '^[-+][^-+]' /tmp/rebased-$$.diff)
[ "$a" = "$b" ] || { echo "line count differs ($a vs $b): $1"; rm -f /tmp/rebased-$$.diff; exit 1; }
[ -f "$d/patch.orig.diff" ] || cp "$d/patch.diff" "$d/patch.orig.diff"
mv /tmp/rebased-$$.diff "$d/patch.diff"; echo "rebased $1"
