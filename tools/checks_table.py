HOOK_COMMITS = ['c1c434b', '878b954', '381133b']
NOTES = ('All checks are driven by bin/check <ID> --tier quick|thorough; exit 0/1/2 as described in DESIGN.md 2.4. '
         'known_findings.json lists recorded defects and fixed ones.')
NA['C01'] = ('power balance needs numerical integration of the reported pattern over the sphere and a 1.5 % physical '
             'tolerance of the true kernel: numeric accuracy with no discrete content, nothing a TLA+ specification can decide (DESIGN.md section 5)')

check('C12', 'model_checking',
      'TLC checks CountFormula, ObjectOrder, SegJoint, JoinedIffSamePoint, JunctionCount on every configuration of spec/Topology.tla '
      '(2 objects exhaustive, 3 and -- with two segments and automatic tags -- 4 objects exhaustive in the thorough tier, up to 6 objects by simulation); every final state is replayed into '
      'the real Mininec constructor under four concretisations of the point ids (exact, jitter below the matching tolerance, near-miss 3 '
      'tolerances away, near-miss 1.25 tolerances along a space diagonal) and the real pulse table, end_segs, per-object pulse lists, the '
      'count formula, gap-free numbering, joint coordinates and the ANTENNA GEOMETRY / WIRE blocks of the real report are compared with the '
      'prediction of the specification. Further modes: junctions a hair above the ground plane with mixed coarse / fine segmentation, structures '
      'far from the origin, curve objects (arcs, incl. closed and doubly grounded ones: configurations curve2 / simcurve), tapered wires with a '
      'separate tolerance scenario list; code->spec: the stored models test/*.pym are built by the real program, projected to point ids and '
      'checked by TopologyOn.tla (real-model binding).',
      'Trusted: TLC, the concretiser (harness/topo.py), the report parser. One recorded defect (closed curve whose ends meet on an end of an '
      'earlier object: assertion in Connected_Geobj.add) is a known finding.',
      'TLC model checking of Topology.tla + exhaustive spec-to-code replay', 'DESIGN.md 4 C12, 3.1')

check('C09', 'model_checking',
      'TLC checks KCL, FreeEndZero and JunctionEndIsSum over the coefficient vectors of the J/E lines on every configuration of '
      'spec/Topology.tla (all end-to-end combinations, orders, tags, chains, stars of up to 6 ends, two-wire loops, with and without ground). '
      'Binding: for every final state the real CURRENT DATA block is rendered with synthetic currents and the exact integer coefficient of '
      'every pulse current in every J/E line is decoded from the text; it must equal the specification line by line, KCL is evaluated on '
      'the decoded coefficients, unconnected ends must print E with zeros, numbered rows must be the non-junction pulses. A third of the '
      'configurations (all in the thorough tier) is also concretised with joined ends a hair apart, distinct ends three matching tolerances '
      'apart (also along a space diagonal) and a junction 1.5 tolerances above the ground plane: the lines must follow the documented '
      'matching rule.',
      'Trusted: TLC, the base-5 coefficient decoding (relies on the block being linear in Mininec.current), the report parser. One recorded '
      'defect (first-end junction line of a hub wire with >= 2 neighbours) is a known finding because its one-character repair changes two '
      'golden files of the pinned suite.',
      'TLC model checking of Topology.tla + coefficient extraction from the real report', 'DESIGN.md 4 C09')
check('C17', 'model_checking',
      'TLC checks OwnerIsLaterTag, TagOrder, TagAssignment, AddrFormsAgree, AllOnce on every configuration of spec/Topology.tla and predicts '
      'the per-object pulse lists. Binding: every final state is built through the real command line (main) once per valid (k,tag) and '
      'absolute pulse number, per load attachment form (absolute, per object, all-of-object, all) and with a multi-source / multi-load '
      'mixed-form command line; Excitation.idx, load.pulses, the SOURCE/LOAD listings and the geometry-table rows must name the predicted '
      'pulses, both forms must give bit-identical right-hand sides and (sampled) identical solved reports, invalid numbers must be diagnostics; '
      'a skin-effect / insulation load given for one object must cover every pulse with a half segment on it exactly once; exactly the named '
      'pulses are driven, in any order of naming (a pulse on a grounded end first); the load terms of the matrix of every multi-pulse '
      'attachment form equal those of the same antenna with one single-pulse load per attached pulse, and the per-object description the '
      'program writes for it (as_cmdline, load_by_geo) names the same pulses when read back.',
      'Trusted: TLC, concretiser, report parser. Wires only. Solved-report comparison on a seeded sample (10 % quick, 30 % thorough).',
      'TLC model checking of Topology.tla + spec-to-code replay through main()', 'DESIGN.md 4 C17')

check('C14', 'model_checking',
      'TLC checks NoStaleUse, FieldsFresh and RequestsIndependent on spec/Lifecycle.tla for every well-formed history (frequency changes, '
      'compute, far- and near-field requests) up to length 6 (7 thorough) and dumps them. spec->code: every history is replayed on four model '
      'archetypes covering all load kinds; after each step Z, rhs, currents, power, far-field and near-field arrays must equal bit for bit '
      'what a fresh object computing only that step gives. code->spec: the hook events (SetF, FillZ, CacheFill, CacheUse, ApplyLoads, FillRhs, '
      'Solve, FarField, NearField) of those runs and of frequency sweeps through main are validated by TraceLifecycle.tla in one batched TLC '
      'run (stale cache use, loads applied twice, results of another frequency are flagged per trace). Sweep step k of main equals a fresh '
      'run of main (text of the frequency dependent blocks). The same command line in 4 (8) fresh processes with different hash seeds and '
      'allocation patterns gives byte-identical report and --output-cmdline file. Histories also contain voltage changes and a load added '
      'between computes; TLC must refute the two design variants the code does not implement (surviving skin-effect cache, kept matrix). '
      'Unbounded length: Apalache proves an inductive invariant of spec/LifecycleInd.tla (typed restatement; initiation, consecution, '
      'invariant => NoStaleUse /\\ FieldsFresh) and TLC checks that LifecycleInd refines Lifecycle.',
      'Trusted: TLC, the archetype list (harness/models.py), single-threaded BLAS for bit-exact comparison. Field requests are only issued after '
      'a compute at the current frequency (as main does); a field request after a frequency change without compute has no defined result.',
      'TLC model checking of Lifecycle.tla + history replay against fresh objects + batched trace validation', 'DESIGN.md 4 C14, 3.4')

check('C16', 'model_checking',
      'TLC enumerates (start, step, count) per axis in scaled integers with spec/Grid.tla (invariants ExactCount, OnLattice, AllOnce, Order): '
      '5 starts x 11 steps (0.1, 0.05, 0.7, 0.3, 0.001, 0.333, negative steps, 0) x all counts 1..40 (1..100 thorough) on each axis plus small '
      'three-axis products, and dumps the expected point list of every case. Every case is replayed: near_field_coord, len(e_field), '
      'len(h_field), the NEAR ELECTRIC/MAGNETIC FIELDS blocks of the report, far_field.zen/azi and the rows of both far-field tables must show '
      'exactly these points in this order; a sampled fraction also goes through main().',
      'Trusted: TLC, report parser. Values compared at 1e-9 relative, printed coordinates at their printed precision. Step 0 (all points of an axis coincide) '
      'is enumerated for the API; the command line refuses it with a count above 1. Half of the far-field requests reuse and '
      'mutate the same Angle objects; every near-field request is followed by a second one on the same object that differs by a hair.',
      'TLC enumeration with Grid.tla + exhaustive spec-to-code replay', 'DESIGN.md 4 C16')

check('C20', 'fault_enumeration',
      'spec/Cmdline.tla models main() as a staged pipeline (32 stages, same names as the Stage hook events); about 4580 fault sites (every '
      'comma-separated field of every option of four base command lines replaced by empty / x / 0 / -1 / 1e300 / nan / inf / 1e-300 / 99 / 1e29 / -1e29 / 1e-29 / 1_0 / 1e / 0.5, arity '
      'changes, options given twice or omitted, contradictory and degenerate combinations, every pair of fields of one option set to 0 / -1, output files) carry stage and outcome kind '
      '(spec/cmdline_table.json). TLC enumerates every single fault exhaustively and pairs of faults on different option groups by simulation, '
      'checks ExactlyOneOutcome / StopsAtFirst and dumps every scenario. Each scenario is run through the real main(); the verdict is taken '
      'from the OBSERVED outcome: complete finite report (parsed by the report grammar, no nan/inf token) | exactly one diagnostic line with '
      'return 23 | usage error; anything else (uncaught exception, NaN/inf printed, partial report, several lines with 23, no output) is a '
      'violation unless it is a recorded known finding (matched by the fault = option / field / value without its base command, exception type and '
      'innermost function; two-fault scenarios are attributed to the fault that is recorded as failing on its own). After fixes F27-F47 one C20 '
      'finding is left open (closed arc on the end of an earlier wire, the C12 finding seen from the command line). code->spec: the Stage events of every real run are validated as a behaviour of the pipeline '
      'by spec/TraceCmdline.tla in one batched TLC run (stage order, no diagnostic after the frequency loop was entered); thorough tier: three '
      'simultaneous faults.',
      'Trusted: TLC, report parser, in-process execution of main with captured stdout/stderr. The site table is learnt from the code at build '
      'time and committed; a predicted diagnostic that turns out to be a legitimate report (or vice versa) is not a violation because the '
      'property allows either. Unwritable output paths (environment faults) are outside the domain.',
      'TLC enumeration of fault scenarios on Cmdline.tla + replay of every scenario through main()', 'DESIGN.md 4 C20')

check('C15', 'model_checking',
      'spec/OptionFile.tla transcribes the option writers (as_cmdline) and the reader (main) at the level of options, tags, indices and order '
      '(objects of three kinds with explicit / automatic tags, taper, sources in both forms with unit and other voltages, lumped loads of the '
      'four kinds with every attachment form, tagged and global skin-effect loads). TLC checks Accepted, RoundTrip and FixPoint on the design '
      'variant and dumps every command line of the variant matching the code with its predicted verdict. Every command line is concretised '
      '(spec/AttachForms.tla adds the compaction rule of the attachment writer over bags of pulses: the code\'s rule holds, the rule before fix '
      'eb437c2 must stay refuted, all 584 final states are replayed) '
      '(chained and separate wire layouts, later wires with 7 or 3 segments so that repeated attachments can equal the pulse count, '
      'transformations, scaling, five media forms), built by the real main(), written by as_cmdline() '
      '(plain and load_by_geo), read back by main(), and the two models are compared by projection; the re-written option file must equal '
      'the first; a sampled fraction is solved and the feed impedances compared (3e-4).',
      'Trusted: TLC, the concretiser and projection in harness/c15.py. Geometry transformations, scaling, media forms and numeric values are '
      'seeded choices of the concretiser, not enumerated by TLC. The writer variant the code had before fix 5540ff0 (loads numbered in '
      'attachment order, LoadsInKindOrder = FALSE) must stay refuted by TLC. Command lines whose ORIGINAL the taper '
      'algorithm cannot build (assertion, recorded under C20) are skipped and counted.',
      'TLC model checking of OptionFile.tla + write/read-back replay through main()', 'DESIGN.md 4 C15')

check('C18', 'model_checking',
      'spec/BasicDialogue.tla is the prompt automaton of BASIC MININEC-3 (device, frequency, environment and media sub-dialogue, wires, '
      'sources, loads in impedance or S-parameter form with order+1 coefficient lines, menu commands C / P / N with their sub-dialogues, Q). '
      'Every generated answer file is validated as a trace in one batched TLC run: each line must answer the prompt that is due (arity, lexical '
      'class, counts consistent with earlier answers) and nothing may be left over; TLC prints the prompt sequence of accepted files. With it '
      'the harness decodes the answers and compares frequency, environment, media, every (emulated) wire, sources (pulse, magnitude, phase in '
      'degrees) and loads (pulse, value, uH/uF scaling for version 9) with the real model; wire ends the program joined must be printed '
      'identically; a model rebuilt from the decoded answers must have the same pulse positions and feed impedance (5e-4; 2 % for taper / arc / '
      'helix emulation). The 48 stored .mini files must be accepted first.',
      'Trusted base: the dialogue itself is reconstructed from the prompt comments in the code and the stored .mini files (the BASIC program is '
      'not available). Models come from a seeded generator over 12 geometry families, 6 media forms, 8 complex voltages, impedance / Laplace / '
      'distributed loads, versions 9/12/13 and all menu sub-dialogues.',
      'batched TLC trace validation against BasicDialogue.tla + decode/compare/rebuild', 'DESIGN.md 4 C18, 3.6')

check('C19', 'other',
      'Structure: every report (API reports of four archetypes and seven junction / grounded / multi-object structures with every option set, '
      'and frequency sweeps through main) is tokenised into block / row tokens and compared by TLC with Expected(M) of spec/ReportGrammar.tla, '
      'M being the abstract model projected from the real object (one geometry row per pulse in its object block, one source block per source, '
      'one load line per loaded pulse with degree+1 coefficient lines, current blocks with J/E lines and numbered rows, far-field rows, one E and '
      'one H block per near-field point, independent part once and dependent part per sweep step). Values: every number of every report is read '
      'back from the text and compared with the value it reports (5e-6 relative, +1e-6 absolute for fixed-point fields, %.3E fields 5e-4, %.2f '
      'fields 0.005), magnitude / phase columns against real / imaginary, the source listing against the complex source voltage, the J / E line values against the '
      'coefficient vectors spec/TopologyOn.tla derives for the structure (seven structures, two with a radiator grounded at end 1 that joins an earlier wire); synthetic currents, fields, loads and powers drive magnitudes 1e-30 .. '
      '1e12 of both signs with rounding-boundary mantissas through every field; the number formatter is swept over 43 decades.',
      'Level other: TLC decides the structure only; the numeric read-back is decided by the projection (harness/c19.py, harness/report.py).',
      'batched TLC comparison with ReportGrammar.tla + numeric read-back by the report parser', 'DESIGN.md 4 C19')

check('C07', 'exploration',
      'spec/Circuit.tla (EXTENDS Topology) gives the right-hand-side weight of every pulse for every configuration; TLC checks WeightsAgree, '
      'GroundWeight, OneRealHalf, FreeSpaceUnit. Replay with seeded source sets (1..4 sources on interior, junction and grounded pulses, both '
      'addressing forms, seven complex voltage classes, grounded-first and grounded-last registration order): compute_rhs() must equal '
      '-j/m * weight * V entry by entry (1e-13); on a solved fraction the currents must scale with a complex factor, superpose over the sources '
      '(each alone with the others at 0 V), leave impedances and the dBi pattern unchanged under scaling; Excitation.impedance / .power, the '
      'total power and the SOURCE DATA block must equal V/I and Re(V I*)/2 of the current on the feed pulse. Half of the cases carry a passive '
      'lumped load; the same OBJECT is solved again with scaled and restored voltages; the dBi table must not depend on a requested power level.',
      'Exploration level: TLC decides the weights (discrete); the linearity relations are numeric comparisons of implementation outputs with '
      'tolerance 1e-12 * cond(Z). Source sets and voltages are seeded, not exhaustive.',
      'TLC on Circuit.tla for the weights + replay of seeded source sets (exact rhs, solved linearity relations)', 'DESIGN.md 4 C07, 3.3')
check('C08', 'exploration',
      'spec/Circuit.tla gives the load weight and the conductor halves of every pulse (the image half of a grounded pulse is not conductor). '
      'Replay: with Z := 0 the real compute_impedance_matrix_loads() must put exactly -j/m * weight * Z_closed_form on the diagonal of each '
      'loaded pulse and nothing elsewhere, for impedance / RLC (every subset of R, L, C) / trap / Laplace (orders 0..3) / skin-effect '
      '(conductivity or resistivity) / insulation loads, every attachment form (absolute, per object, all of object, all), R, L, C log-uniform '
      'over 12 decades, 0.1 .. 1000 MHz, different radii at junctions, ideal and real ground; closed forms evaluated independently by the harness. '
      'Solved fraction: a lumped load on the feed pulse raises the feed impedance by exactly Z_L (also on grounded ends), two loads on a pulse act '
      'as their sum, zero load / eps_r = 1 / sigma = 1e30 are neutral, conductivity and resistivity are interchangeable.',
      'Exploration level: weights and conductor halves by TLC; load values, forms and frequencies seeded. Skin effect with |k r| >= 100 is compared '
      'at 2 % (documented asymptote of the program), otherwise 1e-8 of the summed term magnitudes.',
      'TLC on Circuit.tla for weights/halves + replay of seeded load sets against independent closed forms', 'DESIGN.md 4 C08, 3.3')

_sur = ('The numeric clause (1e-4 for separated pulse pairs in C02, 1 % for the near field in C04) is decided on the many-segment records and '
        'a seeded sample of the TLC configurations by numerical integration of the true kernel (40-point Gauss-Legendre per straight piece) '
        'on the geometry of the SPECIFICATION pulse table (measured on the unchanged tree: 2.5e-6 resp. 0.25 %); self and near terms of the '
        'true kernel (exact-kernel branch, pulses closer than 2.5 segments) are outside the properties and only covered structurally. ')
check('C02', 'model_checking',
      'Structure of every entry, all pairs: every entry of the matrix is the published MININEC-3 combination of potential terms (vector potential of '
      'the two half segments of the source pulse tested along the observer pulse, scalar-potential differences of its two charged segments at '
      'the observer half-segment ends, minus the image terms over ground except for source pulses on the plane), for ALL pulse pairs. The '
      'harness replaces Mininec.psi in its own process by the exact line integral of R^2 (polynomial surrogate kernel with the three properties '
      'the fill optimisations rely on; calling contract of psi honoured) and runs the unmodified compute_impedance_matrix(); the expected matrix '
      'is evaluated from the pulse table of spec/Topology.tla (TLC, every configuration) on seeded lattice coordinates, with tapered wires in '
      'half of the cases and long tapered wires with runs of equal segments; agreement 1e-10 of the largest composing term. spec/FillPlan.tla '
      'models the plan of the fill of one straight object (same-wire shortcut, diagonal copies, mirror copies; TLC invariants '
      'ShortcutOnlyIfUniform, OriginIsComputed, OriginIsCongruent, CopiedSourceNotGrounded on 1890 objects; the pre-repair variant gives a '
      'counterexample) and is bound code->spec: the plan of the real fill (hook) of every segmentation the program produces must equal the '
      'plan of the specification. With the REAL kernel the matrix of an object that was filled at another frequency before (radii crossing the '
      'thin-wire limit) must equal that of a fresh object. The exact-kernel rule of spec/Topology.tla (ExactKernel, invariant '
      'ConnectedOnlyIfJoined) is bound to Pulse_Container.matrix_geo_unconnected() on every configuration.',
      _sur + 'The arithmetic of the formulation is evaluated by harness/lattice.py in floating point (not by TLC); TLC supplies the discrete '
      'pulse table. Radius >= 1e-4 wavelength (every term goes through psi).',
      'TLC pulse tables (Topology.tla) + surrogate-kernel evaluation of the formulation vs the real matrix fill', 'DESIGN.md 4 C02, 1')
check('C04', 'model_checking',
      '(A) structural sub-statement: with the surrogate kernel installed the real compute_near_field, run with injected complex currents, must '
      'reproduce the closed-form E and H of the pulse currents and their charges (image currents over ground) evaluated from the pulse table '
      'of spec/Topology.tla on seeded lattice coordinates (straight, bent, branched, end-1/end-1 and end-2/end-2 junctions, tapered unequal '
      'segments, wires grounded at either end, power scaling; two observation points per call) to 1e-9 of the summed contribution magnitudes. '
      '(C) the 1 % clause with the true kernel (see level note). (B) with the true kernel on six '
      'solved antennas at 1000 wavelengths: transverse near field = reported far-field-absolute value (2.5 % of the pattern maximum), '
      '|E|/|H| = 376.7 ohm (0.5 %), radial components below 3 % (E: plus the discretisation term of the pulse model, w |A| (k d)^2 / 24 '
      'from the solved currents), fields scale with sqrt(power).',
      _sur + 'Part (B) thresholds are set by the discretisation error of lambda/12 .. lambda/20 segments (the residual does not shrink with '
      'distance); the property states no tolerance for the far-zone limit.',
      'TLC pulse tables + surrogate-kernel closed forms vs the real near-field code; far-zone relations on solved antennas', 'DESIGN.md 4 C04, 1')
check('C10', 'model_checking',
      'Clause 1 (moment at the pulse point): the radiation sum is evaluated by harness/lattice.py from the pulse table of spec/Topology.tla '
      '(TLC, every configuration; image terms and the grounded-pulse rule over ground; tapered wires in half of the cases) on seeded lattice '
      'coordinates; the real compute_far_field with injected complex currents must reproduce e_theta / e_phi to 1e-9 of the maximum and the '
      'dBi values to 1e-3 dB at arbitrary directions (zenith angles also below 0 and above 180 degrees; half of the cases repeat the '
      'request with the same Angle objects after changing their fields), powers and distances. Relations: gain = |E|^2 r^2 / (59.96 P) per polarisation between '
      'the two tables, total = power sum, V/m ~ sqrt(P)/r, rows 360 degrees apart identical, zenith total independent of azimuth. A third of '
      'the configurations are also SOLVED with two generators 90 degrees apart (one usually absorbing power): the dBi table must be the '
      'radiation sum of the solved currents over the input power sum Re(V I*)/2 computed by the harness.',
      'Clause 2 (2 % of the exact integral over the straight half segments, segments up to lambda/18) is evaluated on the solved '
      'configurations; it exceeds 2 % for small bent structures although clause 1 holds to 1e-9 (recorded known finding, identified by that '
      'cause). The sums are evaluated in floating point by the harness, TLC supplies the discrete pulse table.',
      'TLC pulse tables + independent radiation sum vs the real far-field code with injected currents', 'DESIGN.md 4 C10')

check('C06', 'exploration',
      'Nine conductor structures (bent, star, T, closed triangle, chain, inverted L, sloping grounded, two grounded ends, elevated + grounded): '
      'every permutation of the wire order x every choice of directions, every explicit tag permutation and every split of every wire at a '
      'segment boundary in three direction combinations (436 descriptions). spec/TopologyOn.tla (TLC) gives the pulse table and J-line '
      'coefficient vectors of each description and checks every Topology invariant (CountFormula, KCL, JunctionEndIsSum, ...) on it; the harness '
      'derives from them the map pulse currents -> physical joint currents. Every description is solved with the feed on the same physical '
      'joint; feed impedance, all physical joint currents, near field (E, H at four points) and the far-field pattern must agree with the '
      'reference description within the tolerance of the property (5e-4, condition-number rule). Mirror-symmetric V dipole: symmetric currents '
      'for all orders / directions; tapered V dipole (unequal segments): all orders / directions agree. Besides the fixed list, seeded random '
      'trees of 2..4 wires inside the domain (3 quick, 40 thorough). A deviation is attributed to the inherited exact-kernel rule (recorded '
      'finding; TLC refutes ExactKernelFollowsGeometry on Topology.tla) only when both descriptions agree after being solved again with the '
      'exact kernel between all pulses; descriptions outside the domain of the property are compared but not reported.',
      'Exploration level: the discrete part (which descriptions denote one structure, joint-current maps, invariants) by TLC, the numeric part is '
      'a comparison of implementation outputs. Structures are a fixed list inside the stated domain; measured deviations are 1e-10 .. 5e-7.',
      'TLC (TopologyOn.tla) joint-current maps per description + solved comparison across descriptions', 'DESIGN.md 4 C06, 3.2')
check('C03', 'exploration',
      'Fixed grounded structures (monopole, inverted L, sloping wire grounded at end 1 or 2, a mast leaning out of the vertical, two grounded '
      'ends, elevated + grounded, sloping branch, horizontal wire over ground) plus seeded random ones: every wire order and direction choice of the ground model is paired with its free-space mirror '
      'model (every wire duplicated at -z, grounded wires continued into their image; straight-2n variant for vertical wires). '
      'spec/TopologyOn.tla (TLC) checks all Topology invariants on both models and the relation N_free = 2 N_ground - #ground pulses on the two '
      'records. The pulse correspondence with signs follows from pulse positions and directions. Both models are solved for every single feed '
      'pulse (ground pulses with 2 V on the plane pulse of the mirror model) and two seeded two-source sets, every second set with lumped loads '
      '(grounded pulse loaded first; Z on pulse and mirror pulse, 2 Z on the plane pulse): currents through the correspondence, '
      'feed impedances (half rule for grounded feeds) and gain (+3.0103 dB on a 6 x 8 direction grid) must agree (5e-4 / 0.01 dB, '
      'condition-number rule).',
      'Exploration level: structure and counts by TLC, numeric agreement is a comparison of implementation outputs; measured deviations below 3e-9.',
      'TLC (TopologyOn.tla) on ground and mirror model + solved comparison through the pulse bijection', 'DESIGN.md 4 C03')

check('C05', 'exploration',
      'spec/Transform.tla (TLC) enumerates every transformation program of up to three rotate / translate options (equal and different sort '
      'keys, tagged and untagged) and up to two scale options and gives the per-object sequence of elementary maps (invariants ScaleLast, '
      'KeyOrder, Scope). Replay through main(): (i) the segment end points, segment lengths and radii of the transformed wire / arc / helix '
      'equal the elementary maps (rotation about X then Y then Z, translation, scaling incl. radius last) applied by the harness in the '
      "specification's order to the untransformed segmentation (1e-9) -- option form = coordinates; (ii) every whole-structure program is "
      'solved on a bent three-wire antenna with a lumped load: feed impedance and currents equal those of the untransformed antenna (f/s for '
      'scaling by s in 0.01..100), the gain moves rigidly with the antenna (free space: arbitrary multi-axis rotations and shifts of many '
      'wavelengths; ideal ground: z-rotations incl. quarter / half turns and 45 degrees, horizontal shifts, V and H separately, on two antennas '
      'of which one has its grounded sloping wire on the diagonal x = y), tolerance of the property with its condition rule.',
      'Exploration level: order / scope by TLC; angles, shifts and factors are seeded; physics on one antenna per environment.',
      'TLC enumeration of transformation programs (Transform.tla) + replay: geometry equality and solved invariance', 'DESIGN.md 4 C05, 3.5')
check('C13', 'exploration',
      'Discrete part by TLC: Transform.tla (order by sort key, rotations before translations among equal keys, scaling last, tag scope) and '
      'Topology.tla SegJoint (n chained segments per object). Numeric predicates on the real segmentation over seeded parameters: exactly n '
      'segments of positive length chaining from first to last end point (n up to 200, arbitrary orientation, also when the last transformation '
      'is a rotation); equal lengths for plain wires; 12 taper classes (end 1/2/3 x min given or not x max given or not): neighbour ratio <= 2.1 '
      'growing from the tapered end(s), every length >= max(2.5 r, min) and <= max, end-2 taper is the mirror of end-1 taper, two-sided taper '
      'symmetric; arcs (either sense) on the circle at uniform angles from ang1; helices for every sign of length and turn length, circular / '
      'elliptical, radius-tapered: uniform z, on the (tapered) ellipse, angle and handedness as documented, including the last point; '
      'transformation programs replayed on wire + arc + helix as in C05 (i); free-space wires with an end a hair off the plane z = 0.',
      'Exploration level; parameter sets the program rejects are not counted (C20). Bounds carry a relative slack of 1e-6.',
      'TLC (Transform.tla, Topology.tla) for order and structure + numeric predicates on the real segmentation', 'DESIGN.md 4 C13')
check('C11', 'exploration',
      'spec/Media.tla (TLC) models the medium chain and the lookup by reflection distance and checks SameLookup for every split of a medium '
      'into adjacent pieces with identical constants and every extension beyond all reflection distances (chains of up to three media); every '
      '(chain, variant) pair is replayed on real antennas (vertical, inverted L, horizontal dipole, sloper with two sources; on and off the axis; '
      'linear and circular boundaries; radials; azimuth sectors), the interface positions being placed by the harness inside / beyond the '
      'reflection distances it computes from pulse positions and directions: currents, matrix and impedances must be bitwise identical to ideal '
      'ground, chain and variant must give identical patterns (1e-9 dB); conductivity 1e12 must reproduce the ideal-ground pattern above '
      'grazing (0.01 dB).',
      'Exploration level: lookup equivalences by TLC; geometry, constants and directions seeded. Splitting the FIRST medium under a radial screen '
      'is excluded (the screen reaches to the first interface, so that is a different antenna).',
      'TLC on Media.tla + replay of every chain/variant pair on real antennas', 'DESIGN.md 4 C11, 3.7')
