HOOK_COMMITS = []
NOTES = ('All checks are driven by bin/check <ID> --tier quick|thorough; exit 0/1/2 as described in DESIGN.md 2.4. '
         'known_findings.json lists recorded defects and fixed ones.')
_pending = 'check not built yet in this revision (see DESIGN.md); will be claimed when its specification and harness exist'
for _p in ['C02','C03','C04','C05','C06','C07','C08','C09','C10','C11','C13','C14','C15','C16','C17','C18','C19','C20']:
    NA[_p] = _pending
NA['C01'] = ('power balance needs numerical integration of the reported pattern over the sphere and a 1.5 % physical '
             'tolerance of the true kernel: numeric accuracy with no discrete content, nothing a TLA+ specification can decide (DESIGN.md section 5)')

check('C12', 'model_checking',
      'TLC checks CountFormula, ObjectOrder, SegJoint, JoinedIffSamePoint, JunctionCount on every configuration of spec/Topology.tla '
      '(2 objects exhaustive, 3 objects exhaustive in the thorough tier, up to 6 objects by simulation); every final state is replayed into '
      'the real Mininec constructor under four concretisations of the point ids (exact, jitter below the matching tolerance, near-miss 3 '
      'tolerances away, near-miss 1.25 tolerances along a space diagonal) and the real pulse table, end_segs, per-object pulse lists, the '
      'count formula, gap-free numbering, joint coordinates and the ANTENNA GEOMETRY / WIRE blocks of the real report are compared with the '
      'prediction of the specification.',
      'Trusted: TLC, the concretiser (harness/topo.py), the report parser. Wires with equal segmentation only in the replay; arcs and helices '
      'share the same connection code. Tapered wires (first segment not the shortest) are covered by a separate scenario list.',
      'TLC model checking of Topology.tla + exhaustive spec-to-code replay', 'DESIGN.md 4 C12, 3.1')
