#!/usr/bin/env python3
"""(Re)creates spec/cmdline_table.json from the observed behaviour of every single fault site.
Run by hand (bin/py tools/c20_bootstrap.py) when harness/cmdline_sites.py changes; the table is committed."""
import sys, collections
sys.path.insert(0, '/verif'); sys.path.insert(0, '/repo')
from harness import c20
t = c20.bootstrap()
c = collections.Counter(v['kind'] for v in t.values())
print(len(t), dict(c))
for k, v in sorted(t.items()):
    if v['kind'] not in ('usage', 'diag', 'report'):
        print(k, v)
