#!/bin/sh
# tools/thorough_sweep.sh [seed] [tier] -- every check of the given tier (default thorough) against a scratch worktree of
# /repo HEAD (so /repo itself stays free for other work), no evidence written.  Not a registered check.
sd=${1:-0}; tier=${2:-thorough}; wt=/tmp/sweep-$$
git -C /repo worktree add -q --detach $wt/repo HEAD || exit 2
trap 'git -C /repo worktree remove --force '$wt'/repo; git -C /repo worktree prune; rm -rf '$wt EXIT INT TERM
root=$(cd "$(dirname "$0")/.." && pwd)
for id in C20 C19 C18 C17 C16 C15 C14 C13 C12 C11 C10 C09 C08 C07 C06 C05 C04 C03 C02; do
  out=$(VERIF_SEED=$sd VERIF_REPO=$wt/repo VERIF_NOEVIDENCE=1 VERIF_WORK=$wt/work VERIF_REPL=$wt/replays VERIF_CPUS=${VERIF_CPUS:-8} \
        timeout 5400 $root/bin/check $id --tier $tier 2>&1); rc=$?
  echo "seed=$sd $tier $id rc=$rc $(echo "$out" | grep -E 'thorough:|quick:' | tail -1)"
  echo "$out" | grep -E 'VIOLATION|MACHINERY' -A1 | head -12
  if [ $rc -ne 0 ]; then mkdir -p $root/sweep_replays; cp $wt/replays/$id-* $root/sweep_replays/ 2>/dev/null; fi
done
