#!/usr/bin/env python3
"""Runs checks against every seeded change in a scratch worktree of /repo (never in /repo itself) and records in
seeded/<name>/meta.json which checks caught it.  Usage: seed_matrix.py [--all-checks] [name ...]"""
import sys, os, json, subprocess, glob, shutil
ROOT = os.path.dirname(os.path.dirname(os.path.abspath(__file__)))
WT = '/tmp/matrix-%d/repo' % os.getpid()
ALL = ['C%02d' % i for i in range(2, 21)]
CHEAP = ['C02', 'C03', 'C04', 'C05', 'C06', 'C07', 'C08', 'C09', 'C10', 'C11', 'C12', 'C13', 'C14', 'C16', 'C17', 'C18', 'C19', 'C20']

def sh(cmd, **kw):
    return subprocess.run(cmd, shell=True, capture_output=True, text=True, **kw)

def main():
    args = sys.argv[1:]
    allc = '--all-checks' in args
    names = [a for a in args if not a.startswith('--')] or sorted(os.path.basename(d) for d in glob.glob(ROOT + '/seeded/*'))
    os.makedirs(os.path.dirname(WT), exist_ok=True)
    if os.path.exists(WT):
        sh('git -C /repo worktree remove --force %s' % WT)
    sh('git -C /repo worktree add --detach %s HEAD' % WT)
    env = dict(os.environ, VERIF_REPO=WT, VERIF_NOEVIDENCE='1', VERIF_WORK=os.path.dirname(WT) + '/work',
               VERIF_REPL=os.path.dirname(WT) + '/replays', VERIF_CPUS=os.environ.get('VERIF_CPUS', '8'))
    try:
        for name in names:
            d = os.path.join(ROOT, 'seeded', name)
            patch = os.path.join(d, 'patch.diff')
            meta = json.load(open(os.path.join(d, 'meta.json')))
            own = meta['property']
            sh('git checkout -- .', cwd=WT)
            r = sh('git apply %s 2>/dev/null || git apply -C1 %s 2>/dev/null' % (patch, patch), cwd=WT)
            if r.returncode == 0:
                r = sh('/venv/bin/python -c "import mininec.mininec, mininec.pulse, mininec.taper"', cwd=WT)
            if r.returncode:
                meta['caught_by'] = None
                meta['matrix_note'] = 'patch does not apply to the current (repaired) tree'
                json.dump(meta, open(os.path.join(d, 'meta.json'), 'w'), indent=1)
                print(name, 'DOES NOT APPLY', flush=True)
                continue
            checks = (ALL if allc else sorted(set([own] + meta.get('also_try', []))))
            caught, missed, broken = [], [], []
            for c in checks:
                p = subprocess.run('timeout 1500 %s/bin/check %s --tier quick' % (ROOT, c), shell=True, env=env,
                                   capture_output=True, text=True)
                (caught if p.returncode == 1 and 'VIOLATION property=' in p.stdout else
                 missed if p.returncode == 0 else broken).append(c)
            meta['caught_by'] = caught
            meta['not_caught_by'] = missed
            if broken:
                meta['exit2_in'] = broken
            json.dump(meta, open(os.path.join(d, 'meta.json'), 'w'), indent=1)
            print(name, 'own=%s' % own, 'caught_by=%s' % caught, 'missed=%s' % missed, 'exit2=%s' % broken, flush=True)
    finally:
        sh('git -C /repo worktree remove --force %s' % WT)
        shutil.rmtree(os.path.dirname(WT), ignore_errors=True)
        json.dump({n: json.load(open(os.path.join(ROOT, 'seeded', n, 'meta.json'))).get('caught_by') for n in names},
                  open(os.path.join(ROOT, 'matrix_result.json'), 'w'), indent=1)

if __name__ == '__main__':
    main()
